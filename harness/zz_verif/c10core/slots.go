//go:build verif

package c10core

import (
	"crypto/elliptic"
	"fmt"
	"math/big"
	"sort"
	"strings"

	"github.com/cloudflare/circl/zz_verif/vlib"
)

// Boundary values for fixed-width integer slots.
//
// Range checks of decoders ("0 <= x < modulus") have exactly one input on the
// boundary: the modulus itself. Neither a mutation of a valid encoding nor a
// random or all-ones string ever hits it, so the deterministic sweep overwrites
// the integer slots of every valid encoding with the moduli and group orders of
// the package's arithmetic, and their neighbours.
//
// For a modulus m of natural width w bytes the values m, m-1, m+1 and (if it
// fits) 2m are written big-endian and little-endian, with every combination of
// those of the three top bits of the most significant byte that the value
// leaves free (formats keep flags there: compression / infinity / sign bits of
// BLS12-381 points, the sign bit of Edwards points), at every slot position:
// offsets k·w and 1+k·w from the start (tag byte), k·w from the end, and k·w
// after the end of every length-prefix field of the entry.

type slotConst struct {
	family string
	name   string
	m      *big.Int
	widths []int // natural width first; more widths for formats that pad (Ed448: 56 and 57)
	double bool  // also m‖m (quadratic extension fields)
}

func hexInt(s string) *big.Int {
	v, ok := new(big.Int).SetString(s, 16)
	if !ok {
		panic("c10core: bad constant " + s)
	}
	return v
}

func pow2(n uint) *big.Int { return new(big.Int).Lsh(big.NewInt(1), n) }

func sub(a *big.Int, bs ...*big.Int) *big.Int {
	r := new(big.Int).Set(a)
	for _, b := range bs {
		r.Sub(r, b)
	}
	return r
}

func decInt(s string) *big.Int {
	v, ok := new(big.Int).SetString(s, 10)
	if !ok {
		panic("c10core: bad constant " + s)
	}
	return v
}

// slotConsts: the constants come from the specifications (FIPS 186-4 curves via crypto/elliptic,
// RFC 8032, the BLS12-381 and FourQ papers, FIPS 203/204, the Prio3 VDAF draft), not from circl.
var slotConsts = func() []slotConst {
	p256, p384, p521 := elliptic.P256().Params(), elliptic.P384().Params(), elliptic.P521().Params()
	return []slotConst{
		{"bls12381", "bls12381.p", hexInt("1a0111ea397fe69a4b1ba7b6434bacd764774b84f38512bf6730d2a0f6b0f6241eabfffeb153ffffb9feffffffffaaab"), []int{48}, true},
		{"bls12381", "bls12381.r", hexInt("73eda753299d7d483339d80809a1d80553bda402fffe5bfeffffffff00000001"), []int{32}, false},
		{"p256", "P256.p", p256.P, []int{32}, false},
		{"p256", "P256.n", p256.N, []int{32}, false},
		{"p384", "P384.p", p384.P, []int{48}, false},
		{"p384", "P384.n", p384.N, []int{48}, false},
		{"p521", "P521.p", p521.P, []int{66}, false},
		{"p521", "P521.n", p521.N, []int{66}, false},
		{"ed25519", "ed25519.p", sub(pow2(255), big.NewInt(19)), []int{32}, false},
		{"ed25519", "ed25519.L", new(big.Int).Add(pow2(252), decInt("27742317777372353535851937790883648493")), []int{32}, false},
		{"ed448", "ed448.p", sub(pow2(448), pow2(224), big.NewInt(1)), []int{56, 57}, false},
		{"ed448", "ed448.order", sub(pow2(446), decInt("13818066809895115352007386748515426880336692474882178609894547503885")), []int{56, 57}, false},
		{"fourq", "fourq.p", sub(pow2(127), big.NewInt(1)), []int{16}, true},
		{"fourq", "fourq.N", hexInt("29cbc14e5e0a72f05397829cbc14e5dfbd004dfe0f79992fb2540ec7768ce7"), []int{32}, false},
		{"prio3", "prio3.field64", hexInt("ffffffff00000001"), []int{8}, false},
		{"prio3", "prio3.field128", hexInt("ffffffffffffffe40000000000000001"), []int{16}, false},
		// SIDH/SIKE primes 2^e2·3^e3 − 1 (public keys are three Fp2 elements) and the CSIDH-512 prime
		{"sidh", "sidh.p434", sub(new(big.Int).Mul(pow2(216), new(big.Int).Exp(big.NewInt(3), big.NewInt(137), nil)), big.NewInt(1)), []int{55}, true},
		{"sidh", "sidh.p503", sub(new(big.Int).Mul(pow2(250), new(big.Int).Exp(big.NewInt(3), big.NewInt(159), nil)), big.NewInt(1)), []int{63}, true},
		{"sidh", "sidh.p751", sub(new(big.Int).Mul(pow2(372), new(big.Int).Exp(big.NewInt(3), big.NewInt(239), nil)), big.NewInt(1)), []int{94}, true},
		{"csidh", "csidh.p512", csidhPrime(), []int{64}, false},
	}
}()

// csidhPrime is 4·ℓ1⋯ℓ74 − 1 with the 73 smallest odd primes and 587 (CSIDH-512).
func csidhPrime() *big.Int {
	prod := big.NewInt(4)
	count := 0
	for l := int64(3); count < 73; l += 2 {
		if big.NewInt(l).ProbablyPrime(8) {
			prod.Mul(prod, big.NewInt(l))
			count++
		}
	}
	prod.Mul(prod, big.NewInt(587))
	return prod.Sub(prod, big.NewInt(1))
}

// packed coefficient patterns: every coefficient of a packed polynomial equal to q-1, q, q+1
type slotPattern struct {
	family, name string
	unit         []byte // repeated over the window
	window       int    // bytes per polynomial in this packing
}

var slotPatterns = func() []slotPattern {
	var out []slotPattern
	// Kyber / ML-KEM: two 12-bit coefficients in three bytes, 384 bytes per polynomial
	for _, d := range []int{-1, 0, 1} {
		c := 3329 + d
		out = append(out, slotPattern{"kyber", fmt.Sprintf("kyber.q%+d/12bit", d),
			[]byte{byte(c), byte(c>>8) | byte(c<<4), byte(c >> 4)}, 384})
	}
	// Dilithium / ML-DSA: q = 8380417 as 23-bit packed (8 coefficients in 23 bytes), and as 3/4-byte integers
	for _, d := range []int{-1, 0, 1} {
		c := uint64(8380417 + d)
		unit := make([]byte, 23)
		for i := 0; i < 8; i++ {
			for b := 0; b < 23; b++ {
				if c>>uint(b)&1 == 1 {
					pos := i*23 + b
					unit[pos/8] |= 1 << (pos % 8)
				}
			}
		}
		out = append(out, slotPattern{"dilithium", fmt.Sprintf("dilithium.q%+d/23bit", d), unit, 736})
		out = append(out, slotPattern{"dilithium", fmt.Sprintf("dilithium.q%+d/le32", d), []byte{byte(c), byte(c >> 8), byte(c >> 16), 0}, 1024})
		out = append(out, slotPattern{"dilithium", fmt.Sprintf("dilithium.q%+d/le24", d), []byte{byte(c), byte(c >> 8), byte(c >> 16)}, 768})
	}
	return out
}()

// familyKeywords maps substrings of an entry's name or group to constant families.
var familyKeywords = []struct{ kw, family string }{
	{"bls", "bls12381"}, {"tkn20", "bls12381"}, {"cpabe", "bls12381"},
	{"P256", "p256"}, {"P-256", "p256"}, {"p256", "p256"},
	{"P384", "p384"}, {"P-384", "p384"}, {"p384", "p384"},
	{"P521", "p521"}, {"P-521", "p521"}, {"p521", "p521"},
	{"25519", "ed25519"}, {"istretto", "ed25519"}, {"eddilithium2", "ed25519"}, {"wing", "ed25519"}, {"WING", "ed25519"},
	{"448", "ed448"}, {"goldilocks", "ed448"}, {"eddilithium3", "ed448"},
	{"fourq", "fourq"},
	{"yber", "kyber"}, {"YBER", "kyber"}, {"mlkem", "kyber"}, {"ML-KEM", "kyber"}, {"wing", "kyber"}, {"WING", "kyber"},
	{"ilithium", "dilithium"}, {"ML-DSA", "dilithium"}, {"mldsa", "dilithium"},
	{"prio3", "prio3"}, {"fp64", "prio3"}, {"fp128", "prio3"},
	{"csidh", "csidh"}, {"sidh", "sidh"}, {"sike", "sidh"}, {"SIKE", "sidh"}, {"SIDH", "sidh"},
}

func familiesOf(e *Entry) map[string]bool {
	f := map[string]bool{}
	for _, k := range familyKeywords {
		if strings.Contains(e.Name, k.kw) || strings.Contains(e.Group, k.kw) {
			f[k.family] = true
		}
	}
	return f
}

type slotValue struct {
	name  string
	b     []byte
	exact bool // the modulus itself (not a neighbour)
	flags bool // top-bit flags set
}

// slotValues expands one modulus into the byte strings written into a slot of width w.
func slotValues(name string, m *big.Int, w int) []slotValue {
	var out []slotValue
	two := new(big.Int).Lsh(m, 1)
	for _, v := range []struct {
		tag string
		x   *big.Int
	}{{"m", m}, {"m-1", sub(m, big.NewInt(1))}, {"m+1", new(big.Int).Add(m, big.NewInt(1))}, {"2m", two}} {
		if (v.x.BitLen()+7)/8 > w {
			continue
		}
		be := v.x.FillBytes(make([]byte, w))
		free := []byte{0}
		for bits := 1; bits < 8; bits++ {
			f := byte(bits << 5)
			if be[0]&f == 0 {
				free = append(free, f)
			}
		}
		for _, f := range free {
			b := append([]byte{}, be...)
			b[0] |= f
			out = append(out, slotValue{fmt.Sprintf("%s/%s/be/top|%02x", name, v.tag, f), b, v.tag == "m", f != 0})
			l := make([]byte, w)
			for i := range b {
				l[w-1-i] = b[i]
			}
			out = append(out, slotValue{fmt.Sprintf("%s/%s/le/top|%02x", name, v.tag, f), l, v.tag == "m", f != 0})
		}
	}
	return out
}

func slotOffsets(n, w int, lenFields [][2]int, all bool, maxOff int) []int {
	set := map[int]bool{}
	add := func(o int) {
		if o >= 0 && o+w <= n {
			set[o] = true
		}
	}
	add(0)
	add(1)
	add(n - w)
	if all {
		for k := 0; k*w <= n; k++ {
			add(k * w)
			add(1 + k*w)
			add(n - w - k*w)
		}
		for _, lf := range lenFields {
			for k := 0; k*w <= n; k++ {
				add(lf[0] + lf[1] + k*w)
			}
		}
	}
	var offs []int
	for o := range set {
		offs = append(offs, o)
	}
	sort.Ints(offs)
	if len(offs) > maxOff {
		// keep the slots nearest to both ends
		h := maxOff / 2
		offs = append(append([]int{}, offs[:h]...), offs[len(offs)-(maxOff-h):]...)
	}
	return offs
}

// slotCase is one overwrite of a valid encoding.
type slotCase struct {
	prio int
	kind string
	off  int
	b    []byte
}

// Priorities (the per-entry budget of the quick tier cuts the list from the end):
//
//	0  the entry's own families and moduli: the modulus itself, both byte orders, every slot
//	1  the same with every free flag combination in the top bits
//	2  the entry's own families: m-1, m+1, 2m without flags; packed-coefficient patterns
//	3  all other families: the modulus itself without flags at the first slot, after a tag byte and at the last slot
//	4  the entry's own families: m-1, m+1, 2m with flags
//	5  all other families: neighbours and flag combinations
func slotCases(e *Entry, n int) []slotCase {
	fam := familiesOf(e)
	maxOff := 24
	if vlib.Thorough() {
		maxOff = 256
	}
	var cases []slotCase
	do := func(name string, m *big.Int, widths []int, double, relevant bool) {
		for _, w := range widths {
			if w > n {
				continue
			}
			vals := slotValues(name, m, w)
			prio := func(sv slotValue) int {
				switch {
				case relevant && sv.exact && !sv.flags:
					return 0
				case relevant && sv.exact:
					return 1
				case relevant && !sv.flags:
					return 2
				case !relevant && sv.exact && !sv.flags:
					return 3
				case relevant:
					return 4
				}
				return 5
			}
			for _, off := range slotOffsets(n, w, e.LenFields, relevant, maxOff) {
				for _, sv := range vals {
					cases = append(cases, slotCase{prio(sv), sv.name, off, sv.b})
				}
			}
			if double && 2*w <= n {
				for _, off := range slotOffsets(n, 2*w, e.LenFields, relevant, maxOff) {
					for _, sv := range vals {
						cases = append(cases, slotCase{prio(sv), sv.name + "x2", off, append(append([]byte{}, sv.b...), sv.b...)})
					}
				}
			}
		}
	}
	for _, c := range slotConsts {
		do(c.name, c.m, c.widths, c.double, fam[c.family])
	}
	for i, m := range e.Moduli {
		x := new(big.Int).SetBytes(m)
		do(fmt.Sprintf("entry-modulus%d", i), x, []int{(x.BitLen() + 7) / 8}, false, true)
	}
	for _, p := range slotPatterns {
		if !fam[p.family] || n < len(p.unit) {
			continue
		}
		fill := func(off, l int) {
			b := make([]byte, l)
			for i := range b {
				b[i] = p.unit[i%len(p.unit)]
			}
			cases = append(cases, slotCase{2, p.name, off, b})
		}
		// the whole encoding, the encoding after / before a 32/64-byte seed or hash, and single polynomials
		fill(0, n)
		for _, skip := range []int{32, 64} {
			if n > skip+len(p.unit) {
				fill(skip, n-skip)
				fill(0, n-skip)
			}
		}
		if p.window <= n {
			for _, off := range slotOffsets(n, p.window, e.LenFields, true, 8) {
				fill(off, p.window)
			}
		}
	}
	sort.SliceStable(cases, func(i, j int) bool { return cases[i].prio < cases[j].prio })
	return cases
}

// slotClass shortens "<constant>/<variant>…" to "slot/<constant>" for the histogram.
func slotClass(kind string) string {
	if i := strings.Index(kind, "/"); i > 0 {
		kind = kind[:i]
	}
	return "slot/" + kind
}

// slotSweep is the boundary-value part of Sweep. It returns the number of cases run and cut.
func slotSweep(d *directTB, e *Entry) (run, cut int) {
	if e.Valid == nil {
		return 0, 0
	}
	// per-entry case budget (counts, not time): long encodings are costly to parse and have few integer slots
	budget := func(n int) int {
		base := vlib.N(300, 40000)
		if n > 600 && !vlib.Thorough() {
			base = 120
		}
		return max(16, base/max(1, e.Cost))
	}
	nv := max(1, e.NValid)
	seenLen := map[int]bool{}
	var vs [][]byte
	for vi := 0; vi < nv; vi++ {
		v := e.Valid(vi)
		if !vlib.Thorough() && seenLen[len(v)] {
			continue // quick: one valid encoding per length
		}
		seenLen[len(v)] = true
		vs = append(vs, v)
	}
	for _, v := range vs {
		cases := slotCases(e, len(v))
		b := max(16, budget(len(v))/len(vs))
		if len(cases) > b {
			cut += len(cases) - b
			cases = cases[:b]
		}
		for _, c := range cases {
			in := append([]byte{}, v...)
			copy(in[c.off:], c.b)
			d.replay = map[string]interface{}{"entry": e.Name, "input": fmt.Sprintf("%x", in), "kind": fmt.Sprintf("slot/%s@%d", c.kind, c.off)}
			probe(d, e, slotClass(c.kind), in)
			run++
		}
	}
	return run, cut
}
