//go:build verif

package c10core

import (
	"crypto/elliptic"
	"fmt"
	"math/big"
	"sort"
	"strings"

	"github.com/cloudflare/circl/zz_verif/vlib"
)

// Boundary values for fixed-width integer slots.
//
// Range checks of decoders ("0 <= x < modulus") have exactly one input on the
// boundary: the modulus itself. Neither a mutation of a valid encoding nor a
// random or all-ones string ever hits it, so the deterministic sweep overwrites
// the integer slots of every valid encoding with the moduli and group orders of
// the package's arithmetic, and their neighbours.
//
// For a modulus m of natural width w bytes the values m, m-1, m+1 and (if it
// fits) 2m are written big-endian and little-endian, with every combination of
// those of the three top bits of the most significant byte that the value
// leaves free (formats keep flags there: compression / infinity / sign bits of
// BLS12-381 points, the sign bit of Edwards points), at every slot position:
// offsets k·w and 1+k·w from the start (tag byte), k·w from the end, and k·w
// after the end of every length-prefix field of the entry.

type slotConst struct {
	family string
	name   string
	m      *big.Int
	widths []int // natural width first; more widths for formats that pad (Ed448: 56 and 57)
	double bool  // also m‖m (quadratic extension fields)
}

func hexInt(s string) *big.Int {
	v, ok := new(big.Int).SetString(s, 16)
	if !ok {
		panic("c10core: bad constant " + s)
	}
	return v
}

func pow2(n uint) *big.Int { return new(big.Int).Lsh(big.NewInt(1), n) }

func sub(a *big.Int, bs ...*big.Int) *big.Int {
	r := new(big.Int).Set(a)
	for _, b := range bs {
		r.Sub(r, b)
	}
	return r
}

func decInt(s string) *big.Int {
	v, ok := new(big.Int).SetString(s, 10)
	if !ok {
		panic("c10core: bad constant " + s)
	}
	return v
}

// slotConsts: the constants come from the specifications (FIPS 186-4 curves via crypto/elliptic,
// RFC 8032, the BLS12-381 and FourQ papers, FIPS 203/204, the Prio3 VDAF draft), not from circl.
var slotConsts = func() []slotConst {
	p256, p384, p521 := elliptic.P256().Params(), elliptic.P384().Params(), elliptic.P521().Params()
	return []slotConst{
		{"bls12381", "bls12381.p", hexInt("1a0111ea397fe69a4b1ba7b6434bacd764774b84f38512bf6730d2a0f6b0f6241eabfffeb153ffffb9feffffffffaaab"), []int{48}, true},
		{"bls12381", "bls12381.r", hexInt("73eda753299d7d483339d80809a1d80553bda402fffe5bfeffffffff00000001"), []int{32}, false},
		{"p256", "P256.p", p256.P, []int{32}, false},
		{"p256", "P256.n", p256.N, []int{32}, false},
		{"p384", "P384.p", p384.P, []int{48}, false},
		{"p384", "P384.n", p384.N, []int{48}, false},
		{"p521", "P521.p", p521.P, []int{66}, false},
		{"p521", "P521.n", p521.N, []int{66}, false},
		{"ed25519", "ed25519.p", sub(pow2(255), big.NewInt(19)), []int{32}, false},
		{"ed25519", "ed25519.L", new(big.Int).Add(pow2(252), decInt("27742317777372353535851937790883648493")), []int{32}, false},
		{"ed448", "ed448.p", sub(pow2(448), pow2(224), big.NewInt(1)), []int{56, 57}, false},
		{"ed448", "ed448.order", sub(pow2(446), decInt("13818066809895115352007386748515426880336692474882178609894547503885")), []int{56, 57}, false},
		{"fourq", "fourq.p", sub(pow2(127), big.NewInt(1)), []int{16}, true},
		{"fourq", "fourq.N", hexInt("29cbc14e5e0a72f05397829cbc14e5dfbd004dfe0f79992fb2540ec7768ce7"), []int{32}, false},
		{"prio3", "prio3.field64", hexInt("ffffffff00000001"), []int{8}, false},
		{"prio3", "prio3.field128", hexInt("ffffffffffffffe40000000000000001"), []int{16}, false},
	}
}()

// packed coefficient patterns: every coefficient of a packed polynomial equal to q-1, q, q+1
type slotPattern struct {
	family, name string
	unit         []byte // repeated over the window
	window       int    // bytes per polynomial in this packing
}

var slotPatterns = func() []slotPattern {
	var out []slotPattern
	// Kyber / ML-KEM: two 12-bit coefficients in three bytes, 384 bytes per polynomial
	for _, d := range []int{-1, 0, 1} {
		c := 3329 + d
		out = append(out, slotPattern{"kyber", fmt.Sprintf("kyber.q%+d/12bit", d),
			[]byte{byte(c), byte(c>>8) | byte(c<<4), byte(c >> 4)}, 384})
	}
	// Dilithium / ML-DSA: q = 8380417 as 23-bit packed (8 coefficients in 23 bytes), and as 3/4-byte integers
	for _, d := range []int{-1, 0, 1} {
		c := uint64(8380417 + d)
		unit := make([]byte, 23)
		for i := 0; i < 8; i++ {
			for b := 0; b < 23; b++ {
				if c>>uint(b)&1 == 1 {
					pos := i*23 + b
					unit[pos/8] |= 1 << (pos % 8)
				}
			}
		}
		out = append(out, slotPattern{"dilithium", fmt.Sprintf("dilithium.q%+d/23bit", d), unit, 736})
		out = append(out, slotPattern{"dilithium", fmt.Sprintf("dilithium.q%+d/le32", d), []byte{byte(c), byte(c >> 8), byte(c >> 16), 0}, 1024})
		out = append(out, slotPattern{"dilithium", fmt.Sprintf("dilithium.q%+d/le24", d), []byte{byte(c), byte(c >> 8), byte(c >> 16)}, 768})
	}
	return out
}()

// familyKeywords maps substrings of an entry's name or group to constant families.
var familyKeywords = []struct{ kw, family string }{
	{"bls", "bls12381"}, {"tkn20", "bls12381"}, {"cpabe", "bls12381"},
	{"P256", "p256"}, {"P-256", "p256"}, {"p256", "p256"},
	{"P384", "p384"}, {"P-384", "p384"}, {"p384", "p384"},
	{"P521", "p521"}, {"P-521", "p521"}, {"p521", "p521"},
	{"25519", "ed25519"}, {"istretto", "ed25519"}, {"eddilithium2", "ed25519"}, {"wing", "ed25519"}, {"WING", "ed25519"},
	{"448", "ed448"}, {"goldilocks", "ed448"}, {"eddilithium3", "ed448"},
	{"fourq", "fourq"},
	{"yber", "kyber"}, {"YBER", "kyber"}, {"mlkem", "kyber"}, {"ML-KEM", "kyber"}, {"wing", "kyber"}, {"WING", "kyber"},
	{"ilithium", "dilithium"}, {"ML-DSA", "dilithium"}, {"mldsa", "dilithium"},
	{"prio3", "prio3"}, {"fp64", "prio3"}, {"fp128", "prio3"},
}

func familiesOf(e *Entry) map[string]bool {
	f := map[string]bool{}
	for _, k := range familyKeywords {
		if strings.Contains(e.Name, k.kw) || strings.Contains(e.Group, k.kw) {
			f[k.family] = true
		}
	}
	return f
}

type slotValue struct {
	name string
	b    []byte
}

// slotValues expands one modulus into the byte strings written into a slot of width w.
func slotValues(name string, m *big.Int, w int) []slotValue {
	var out []slotValue
	two := new(big.Int).Lsh(m, 1)
	for _, v := range []struct {
		tag string
		x   *big.Int
	}{{"m", m}, {"m-1", sub(m, big.NewInt(1))}, {"m+1", new(big.Int).Add(m, big.NewInt(1))}, {"2m", two}} {
		if (v.x.BitLen()+7)/8 > w {
			continue
		}
		be := v.x.FillBytes(make([]byte, w))
		free := []byte{0}
		for bits := 1; bits < 8; bits++ {
			f := byte(bits << 5)
			if be[0]&f == 0 {
				free = append(free, f)
			}
		}
		for _, f := range free {
			b := append([]byte{}, be...)
			b[0] |= f
			out = append(out, slotValue{fmt.Sprintf("%s/%s/be/top|%02x", name, v.tag, f), b})
			l := make([]byte, w)
			for i := range b {
				l[w-1-i] = b[i]
			}
			out = append(out, slotValue{fmt.Sprintf("%s/%s/le/top|%02x", name, v.tag, f), l})
		}
	}
	return out
}

func slotOffsets(n, w int, lenFields [][2]int, all bool, maxOff int) []int {
	set := map[int]bool{}
	add := func(o int) {
		if o >= 0 && o+w <= n {
			set[o] = true
		}
	}
	add(0)
	add(1)
	add(n - w)
	if all {
		for k := 0; k*w <= n; k++ {
			add(k * w)
			add(1 + k*w)
			add(n - w - k*w)
		}
		for _, lf := range lenFields {
			for k := 0; k*w <= n; k++ {
				add(lf[0] + lf[1] + k*w)
			}
		}
	}
	var offs []int
	for o := range set {
		offs = append(offs, o)
	}
	sort.Ints(offs)
	if len(offs) > maxOff {
		// keep the slots nearest to both ends
		h := maxOff / 2
		offs = append(append([]int{}, offs[:h]...), offs[len(offs)-(maxOff-h):]...)
	}
	return offs
}

// slotInputs returns the boundary-value inputs for one valid encoding of e.
func slotInputs(e *Entry, v []byte) (kinds []string, inputs [][]byte) {
	fam := familiesOf(e)
	maxOff := 24
	if e.Cost > 4 {
		maxOff = 6 // expensive calls: the slots nearest to both ends
	}
	if vlib.Thorough() {
		maxOff = 256
	}
	n := len(v)
	put := func(kind string, off int, b []byte) {
		in := append([]byte{}, v...)
		copy(in[off:], b)
		kinds = append(kinds, fmt.Sprintf("slot/%s@%d", kind, off))
		inputs = append(inputs, in)
	}
	do := func(name string, m *big.Int, widths []int, double, relevant bool) {
		for _, w := range widths {
			if w > n {
				continue
			}
			vals := slotValues(name, m, w)
			for _, off := range slotOffsets(n, w, e.LenFields, relevant, maxOff) {
				for _, sv := range vals {
					put(sv.name, off, sv.b)
				}
			}
			if double && 2*w <= n {
				for _, off := range slotOffsets(n, 2*w, e.LenFields, relevant, maxOff) {
					for _, sv := range vals {
						put(sv.name+"x2", off, append(append([]byte{}, sv.b...), sv.b...))
					}
				}
			}
		}
	}
	for _, c := range slotConsts {
		// the families of the entry's own arithmetic go into every slot, all others into the first and last one
		do(c.name, c.m, c.widths, c.double, fam[c.family])
	}
	for i, m := range e.Moduli {
		x := new(big.Int).SetBytes(m)
		do(fmt.Sprintf("entry-modulus%d", i), x, []int{(x.BitLen() + 7) / 8}, false, true)
	}
	for _, p := range slotPatterns {
		if !fam[p.family] || n < len(p.unit) {
			continue
		}
		fill := func(off, l int) {
			b := make([]byte, l)
			for i := range b {
				b[i] = p.unit[i%len(p.unit)]
			}
			put(p.name, off, b)
		}
		// the whole encoding, the encoding after a 32/64-byte seed or hash prefix, and single polynomials
		fill(0, n)
		for _, skip := range []int{32, 64} {
			if n > skip+len(p.unit) {
				fill(skip, n-skip)
				fill(0, n-skip)
			}
		}
		if p.window <= n {
			for _, off := range slotOffsets(n, p.window, e.LenFields, true, 8) {
				fill(off, p.window)
			}
		}
	}
	return kinds, inputs
}

// slotClass shortens "slot/<constant>/<variant>…@off" to "slot/<constant>" for the histogram.
func slotClass(kind string) string {
	parts := strings.SplitN(kind, "/", 3)
	if len(parts) >= 2 {
		return parts[0] + "/" + parts[1]
	}
	return kind
}

// slotSweep is the boundary-value part of Sweep.
func slotSweep(d *directTB, e *Entry) int {
	if e.Valid == nil {
		return 0
	}
	nv := max(1, e.NValid)
	if !vlib.Thorough() && nv > 3 {
		nv = 3
	}
	total := 0
	seenLen := map[int]bool{}
	for vi := 0; vi < nv; vi++ {
		v := e.Valid(vi)
		if !vlib.Thorough() && seenLen[len(v)] && vi > 0 && e.Cost > 1 {
			continue // expensive entry: one encoding per length
		}
		seenLen[len(v)] = true
		kinds, inputs := slotInputs(e, v)
		for i := range inputs {
			d.replay = map[string]interface{}{"entry": e.Name, "input": fmt.Sprintf("%x", inputs[i]), "kind": kinds[i]}
			probe(d, e, slotClass(kinds[i]), inputs[i])
			total++
		}
	}
	return total
}
