//go:build verif

package c09

import (
	"testing"

	"github.com/cloudflare/circl/zz_verif/vlib"
)

func TestC09Selftest(t *testing.T) {
	defer vlib.Done()
	selftest(t)
}
