//go:build verif

package c09

import (
	"fmt"
	"math/big"
	"testing"

	"github.com/cloudflare/circl/dh/curve4q"
	"github.com/cloudflare/circl/ecc/fourq"
	"github.com/cloudflare/circl/ecc/goldilocks"
	"github.com/cloudflare/circl/zz_verif/ref/decode"
	"github.com/cloudflare/circl/zz_verif/vlib"
	"pgregory.net/rapid"
)

// ---------------------------------------------------------------------------
// Goldilocks / Ed448 points (RFC 8032 §5.2.3), 57 bytes

var goldKinds = []string{"valid", "bitflip", "bitflip", "y>=p", "y>=p", "spare-bits", "spare-bits", "x-zero-sign", "low-order", "ref-point", "structured-valid", "structured-valid", "random", "random"}

func genGold(t *rapid.T, kind string) (b []byte, valid bool, orig *goldilocks.Point) {
	lib := func() ([]byte, *goldilocks.Point) {
		var c goldilocks.Curve
		var P *goldilocks.Point
		switch rapid.IntRange(0, 9).Draw(t, "which") {
		case 0:
			P = c.Identity()
		case 1:
			P = c.Generator()
		default:
			var k goldilocks.Scalar
			kv, _ := vlib.ScalarNear(t, new(big.Int).Sub(pow2(446), hexInt("8335dc163bb124b65129c96fde933d8d723a70aadc873d6d54a7bb0d")), 446, "k")
			copy(k[:], vlib.LE(kv, goldilocks.ScalarSize))
			P = c.ScalarBaseMult(&k)
		}
		enc, err := P.MarshalBinary()
		if err != nil {
			t.Fatalf("harness: MarshalBinary: %v", err)
		}
		return enc, P
	}
	p := decode.P448
	switch kind {
	case "valid":
		b, orig = lib()
		return b, true, orig
	case "bitflip":
		v, _ := lib()
		b, _ = flipBit(t, v, []int{56, 56, 55, 0}, "flip")
		return b, false, nil
	case "y>=p":
		// y := value in [p, 2^448): p (alias of 0), p+1 (alias of the identity's y), p+small, uniform
		var y *big.Int
		switch rapid.IntRange(0, 3).Draw(t, "how") {
		case 0:
			y = new(big.Int).Set(p)
		case 1:
			y = new(big.Int).Add(p, big.NewInt(1))
		case 2:
			y = new(big.Int).Add(p, big.NewInt(int64(rapid.IntRange(0, 400).Draw(t, "small"))))
		default:
			y = drawRange(t, p, pow2(448), "over")
		}
		b = vlib.LE(y, 57)
		if rapid.Bool().Draw(t, "sign") {
			b[56] |= 0x80
		}
		return b, false, nil
	case "spare-bits":
		// the 7 low bits of the last octet do not belong to y (RFC 8032: they make y >= 2^448 > p)
		v, _ := lib()
		b = append([]byte{}, v...)
		b[56] |= byte(rapid.IntRange(1, 127).Draw(t, "spare"))
		return b, false, nil
	case "x-zero-sign":
		y := big.NewInt(1)
		if rapid.Bool().Draw(t, "minus1") {
			y = new(big.Int).Sub(p, big.NewInt(1))
		}
		b = vlib.LE(y, 57)
		b[56] |= 0x80
		return b, false, nil
	case "low-order":
		// (0,1), (0,-1), (±1,0)
		ys := []*big.Int{big.NewInt(1), new(big.Int).Sub(p, big.NewInt(1)), big.NewInt(0)}
		b = vlib.LE(rapid.SampledFrom(ys).Draw(t, "y"), 57)
		if rapid.Bool().Draw(t, "sign") {
			b[56] |= 0x80
		}
		return b, false, nil
	case "structured-valid":
		// curve points with structure, built by the reference: structured y (0, ±1, small, 2^k, near p) with
		// either sign bit, or structured x lifted through the curve equation (either root y)
		for i := 0; ; i++ {
			if rapid.Bool().Draw(t, fmt.Sprintf("fromx%d", i)) {
				if P, ok := decode.Ed448LiftX(drawStructured(t, p, fmt.Sprintf("x%d", i))); ok {
					if rapid.Bool().Draw(t, "negy") {
						P.Y = new(big.Int).Mod(new(big.Int).Neg(P.Y), p)
					}
					return decode.Ed448Encode(P), false, nil
				}
				continue
			}
			e := vlib.LE(drawStructured(t, p, fmt.Sprintf("y%d", i)), 57)
			if rapid.Bool().Draw(t, fmt.Sprintf("sign%d", i)) {
				e[56] |= 0x80
			}
			if decode.Ed448Decode(e).OK || i > 100 {
				return e, false, nil
			}
		}
	case "ref-point":
		// an arbitrary curve point (any order) produced by the reference: drawn y until x exists
		for i := 0; ; i++ {
			y := drawBelow(t, p, fmt.Sprintf("y%d", i))
			e := vlib.LE(y, 57)
			if rapid.Bool().Draw(t, "sign") {
				e[56] |= 0x80
			}
			if decode.Ed448Decode(e).OK || i > 100 {
				return e, false, nil
			}
		}
	default:
		b = make([]byte, 57)
		vlib.FillRandom(t, b, "rnd")
		if rapid.IntRange(0, 3).Draw(t, "clear56") != 0 {
			b[56] &= 0x80
		}
		return b, false, nil
	}
}

func fpEltToInt(e []byte) *big.Int { return vlib.FromLE(e) }

func checkGoldFromBytes(t vlib.TB, b []byte, kind string, valid bool, orig *goldilocks.Point) {
	const sub = "goldilocks.FromBytes"
	vlib.Eval(sub)
	var P *goldilocks.Point
	var err error
	if pn, _ := vlib.Catch(func() { P, err = goldilocks.FromBytes(b) }); pn != nil {
		vlib.Class(sub, "panic(counted; property C10): "+vlib.PanicClass(pn))
		return
	}
	accepted := err == nil
	ref := decode.Ed448Decode(b)
	outcome(sub, kind, valid, accepted, ref.OK, b)
	vlib.Class(sub, "ref-stage="+ref.Stage)
	sample(sub, kind, accepted, b, "ref="+ref.Stage)
	if valid && !accepted {
		vlib.Report(t, "C09/completeness/goldilocks.FromBytes/rejects-library-encoding", fmt.Sprintf("input=%x err=%v", b, err))
		return
	}
	if mustAccept(t, "goldilocks.FromBytes", sub, kind, ref.OK, accepted, b, ref.Stage) {
		return
	}
	if !accepted {
		return
	}
	out, merr := P.MarshalBinary()
	if !ref.OK {
		vlib.Report(t, "C09/soundness/goldilocks.FromBytes/"+ref.Stage, fmt.Sprintf("kind=%s input=%x accepted; RFC 8032 §5.2.3 rejects (%s); re-serialised=%x", kind, b, ref.Stage, out))
		return
	}
	if merr != nil || !eq(out, b) {
		vlib.Report(t, "C09/soundness/goldilocks.FromBytes/reencode-differs", fmt.Sprintf("kind=%s input=%x re-serialised=%x err=%v", kind, b, out, merr))
		return
	}
	if !(goldilocks.Curve{}).IsOnCurve(P) {
		vlib.Report(t, "C09/soundness/goldilocks.FromBytes/accepted-not-on-curve", fmt.Sprintf("kind=%s input=%x", kind, b))
		return
	}
	x, y := P.ToAffine()
	if fpEltToInt(x[:]).Cmp(ref.P.X) != 0 || fpEltToInt(y[:]).Cmp(ref.P.Y) != 0 {
		vlib.Report(t, "C09/soundness/goldilocks.FromBytes/decoded-value-differs", fmt.Sprintf("kind=%s input=%x x=%x reference x=%x", kind, b, vlib.Rev(x[:]), ref.P.X))
		return
	}
	if valid && orig != nil && !(P.IsEqual(orig) && orig.IsEqual(P)) {
		vlib.Report(t, "C09/completeness/goldilocks.FromBytes/not-equal-after-roundtrip", fmt.Sprintf("input=%x", b))
		return
	}
}

var goldUsedStates = []string{"generator", "identity", "sum(unnormalised)", "after-rejected-decode"}

// usedGold decodes b into a fresh and into a used goldilocks.Point and compares the observations.
func usedGold(t vlib.TB, sub string, b []byte) {
	var c goldilocks.Curve
	var freshVal *goldilocks.Point
	look := func(P *goldilocks.Point) recvObs {
		return observe(func(o *recvObs) {
			o.accepted = P.UnmarshalBinary(b) == nil
			if !o.accepted {
				return
			}
			// the value must also behave the same under arithmetic (auxiliary coordinates of the receiver must not
			// leak); done before marshalling P itself, which may normalise it
			dbl, _ := c.Double(P).MarshalBinary()
			sum, _ := c.Add(P, c.Generator()).MarshalBinary()
			out, err := P.MarshalBinary()
			o.views = [][]byte{out, dbl, sum}
			o.flags = []bool{err == nil, c.IsOnCurve(P), P.IsIdentity()}
			if freshVal != nil {
				o.flags = append(o.flags, P.IsEqual(freshVal), freshVal.IsEqual(P))
			} else {
				o.flags = append(o.flags, true, true)
			}
		})
	}
	fp := new(goldilocks.Point)
	fresh := look(fp)
	if fresh.accepted && fresh.pan == "" {
		freshVal = fp
	}
	st := recvState(b, len(goldUsedStates))
	up := c.Generator()
	switch st {
	case 1:
		up = c.Identity()
	case 2:
		up = c.Add(c.Double(up), c.Generator())
	case 3:
		vlib.Catch(func() { _ = up.UnmarshalBinary(garbage(57)) })
	}
	var before, after [][]byte
	vlib.Catch(func() { o, _ := up.MarshalBinary(); before = [][]byte{o} })
	used := look(up)
	if !used.accepted {
		vlib.Catch(func() { o, _ := up.MarshalBinary(); after = [][]byte{o} })
	}
	judgeUsed(t, sub, sub, goldUsedStates[st], b, fresh, used, before, after)
}

func checkGoldUnmarshal(t vlib.TB, b []byte, kind string, valid bool, orig *goldilocks.Point) {
	const sub = "goldilocks.Point.UnmarshalBinary"
	vlib.Eval(sub)
	usedGold(t, sub, b)
	var P goldilocks.Point
	var err error
	if pn, _ := vlib.Catch(func() { err = P.UnmarshalBinary(b) }); pn != nil {
		// on the pinned tree UnmarshalBinary dereferences nil when FromBytes fails: property C10's finding
		vlib.Class(sub, "panic(counted; property C10): "+vlib.PanicClass(pn))
		vlib.Class(sub, "kind="+kind)
		if !valid {
			vlib.NonTrivial(sub, "adversarial:panicked", []byte(sub), b)
		}
		if valid {
			vlib.Report(t, "C09/completeness/goldilocks.Point.UnmarshalBinary/rejects-library-encoding", fmt.Sprintf("input=%x panic=%v", b, pn))
		}
		return
	}
	accepted := err == nil
	ref := decode.Ed448Decode(b)
	outcome(sub, kind, valid, accepted, ref.OK, b)
	sample(sub, kind, accepted, b, "ref="+ref.Stage)
	if valid && !accepted {
		vlib.Report(t, "C09/completeness/goldilocks.Point.UnmarshalBinary/rejects-library-encoding", fmt.Sprintf("input=%x err=%v", b, err))
		return
	}
	if mustAccept(t, "goldilocks.Point.UnmarshalBinary", sub, kind, ref.OK, accepted, b, ref.Stage) {
		return
	}
	if !accepted {
		return
	}
	out, merr := P.MarshalBinary()
	if !ref.OK {
		vlib.Report(t, "C09/soundness/goldilocks.Point.UnmarshalBinary/"+ref.Stage, fmt.Sprintf("kind=%s input=%x accepted; RFC 8032 §5.2.3 rejects (%s); re-serialised=%x", kind, b, ref.Stage, out))
		return
	}
	if merr != nil || !eq(out, b) {
		vlib.Report(t, "C09/soundness/goldilocks.Point.UnmarshalBinary/reencode-differs", fmt.Sprintf("kind=%s input=%x re-serialised=%x", kind, b, out))
		return
	}
	if valid && orig != nil && !(P.IsEqual(orig) && orig.IsEqual(&P)) {
		vlib.Report(t, "C09/completeness/goldilocks.Point.UnmarshalBinary/not-equal-after-roundtrip", fmt.Sprintf("input=%x", b))
		return
	}
}

func TestC09Goldilocks(t *testing.T) {
	defer vlib.Done()
	selftest(t)
	vlib.Check(t, vlib.N(900, 4000), func(t *rapid.T) {
		kind := rapid.SampledFrom(goldKinds).Draw(t, "kind")
		b, valid, orig := genGold(t, kind)
		checkGoldFromBytes(t, b, kind, valid, orig)
		checkGoldUnmarshal(t, b, kind, valid, orig)
		if rapid.IntRange(0, 9).Draw(t, "overlong") == 0 {
			// longer than the format: outside C09's quantifier (exact length); counted only
			long := append(append([]byte{}, b...), byte(rapid.IntRange(0, 255).Draw(t, "extra")))
			var err error
			if pn, _ := vlib.Catch(func() { _, err = goldilocks.FromBytes(long) }); pn == nil && err == nil {
				vlib.Class("goldilocks.FromBytes", "58-byte input accepted (outside the exact-length domain; counted only)")
			}
		}
	})
}

// ---------------------------------------------------------------------------
// FourQ points, 32 bytes

var fourqKinds = []string{"valid", "bitflip", "bitflip", "coord=p", "coord=p", "bit127", "x-zero-sign", "special-x", "special-x", "structured-valid", "structured-valid", "ref-point", "small-order", "random", "random"}

func fqToE2(v *fourq.Fq) decode.E2 {
	a := vlib.FromLE(v[0][:])
	b := vlib.FromLE(v[1][:])
	return decode.E2{A: a.Mod(a, decode.FQP), B: b.Mod(b, decode.FQP)}
}

func setFq(dst *fourq.Fq, v decode.E2) {
	copy(dst[0][:], vlib.LE(v.A, 16))
	copy(dst[1][:], vlib.LE(v.B, 16))
}

// drawFQPoint draws an arbitrary curve point by solving for x from a drawn y.
func drawFQPoint(t *rapid.T, label string) decode.FQPoint {
	for i := 0; ; i++ {
		y := decode.E2{A: drawBelow(t, decode.FQP, fmt.Sprintf("%s.y0.%d", label, i)), B: drawBelow(t, decode.FQP, fmt.Sprintf("%s.y1.%d", label, i))}
		e := make([]byte, 32)
		copy(e, vlib.LE(y.A, 16))
		copy(e[16:], vlib.LE(y.B, 16))
		if rapid.Bool().Draw(t, label+".sign") {
			e[31] |= 0x80
		}
		if r := decode.FQDecode(e); r.OK {
			return r.P
		}
		if i > 200 {
			t.Fatalf("harness: no FourQ point in 200 draws")
		}
	}
}

func genFourQ(t *rapid.T, kind string) (b []byte, valid bool, orig *fourq.Point) {
	lib := func() ([]byte, *fourq.Point) {
		var P fourq.Point
		switch rapid.IntRange(0, 9).Draw(t, "which") {
		case 0:
			P.SetIdentity()
		case 1:
			P.SetGenerator()
		default:
			var k [32]byte
			copy(k[:], vlib.EdgeBytes(t, 32, "k"))
			P.ScalarBaseMult(&k)
		}
		var out [32]byte
		P.Marshal(&out)
		return out[:], &P
	}
	p := decode.FQP
	switch kind {
	case "valid":
		b, orig = lib()
		return b, true, orig
	case "bitflip":
		v, _ := lib()
		b, _ = flipBit(t, v, []int{15, 31, 31}, "flip")
		return b, false, nil
	case "coord=p":
		// the only value in [p, 2^127) is p itself, an alias of 0: find a curve point with y0 = 0 or
		// y1 = 0 (or y = 0) and write p instead of the zero half
		which := rapid.IntRange(0, 3).Draw(t, "which")
		b = make([]byte, 32)
		for i := 0; i < 200; i++ {
			var y decode.E2
			switch which {
			case 0:
				y = decode.E2{A: new(big.Int), B: drawBelow(t, p, fmt.Sprintf("y1.%d", i))}
			case 1:
				y = decode.E2{A: drawBelow(t, p, fmt.Sprintf("y0.%d", i)), B: new(big.Int)}
			case 2:
				y = decode.E2{A: new(big.Int), B: new(big.Int)}
			default: // not necessarily on the curve
				y = decode.E2{A: new(big.Int), B: drawBelow(t, p, "y1")}
			}
			copy(b, vlib.LE(y.A, 16))
			copy(b[16:], vlib.LE(y.B, 16))
			if which == 3 || decode.FQDecode(b).OK {
				break
			}
		}
		alias := rapid.IntRange(1, 3).Draw(t, "alias")
		if alias&1 != 0 && b[15] == 0 && eq(b[:15], make([]byte, 15)) {
			copy(b[:16], vlib.LE(p, 16))
		}
		if alias&2 != 0 && eq(b[16:], make([]byte, 16)) {
			copy(b[16:], vlib.LE(p, 16))
		}
		if rapid.Bool().Draw(t, "sign") {
			b[31] |= 0x80
		}
		return b, false, nil
	case "bit127":
		v, _ := lib()
		b = append([]byte{}, v...)
		b[15] |= 0x80
		return b, false, nil
	case "x-zero-sign":
		y := big.NewInt(1)
		if rapid.Bool().Draw(t, "minus1") {
			y = new(big.Int).Sub(p, big.NewInt(1))
		}
		b = make([]byte, 32)
		copy(b, vlib.LE(y, 16))
		b[31] |= 0x80
		return b, false, nil
	case "special-x":
		// x real, x purely imaginary (its sign is read from x1), x with bit 126 set/clear
		for i := 0; i < 200; i++ {
			v := drawBelow(t, p, fmt.Sprintf("xv.%d", i))
			x := decode.E2{A: v, B: new(big.Int)}
			if rapid.Bool().Draw(t, "imag") {
				x = decode.E2{A: new(big.Int), B: v}
			}
			if P, ok := decode.FQLiftX(x); ok {
				if rapid.Bool().Draw(t, "negy") {
					P.Y = decode.FQF.E2Neg(P.Y)
				}
				b = decode.FQEncode(P)
				if rapid.Bool().Draw(t, "flipsign") {
					b[31] ^= 0x80
				}
				return b, false, nil
			}
		}
		return make([]byte, 32), false, nil
	case "structured-valid":
		// curve points with a coordinate in a proper subfield or with a zero component, built by the reference:
		// x real / purely imaginary / structured (lifted to y), or y real / purely imaginary / 0 / ±1 / ±i (x solved
		// by the reference decoder), each with either sign
		for i := 0; i < 400; i++ {
			a := drawStructured(t, p, fmt.Sprintf("a%d", i))
			c := drawStructured(t, p, fmt.Sprintf("c%d", i))
			var v decode.E2
			switch rapid.IntRange(0, 2).Draw(t, fmt.Sprintf("shape%d", i)) {
			case 0:
				v = decode.E2{A: a, B: new(big.Int)}
			case 1:
				v = decode.E2{A: new(big.Int), B: a}
			default:
				v = decode.E2{A: a, B: c}
			}
			if rapid.Bool().Draw(t, fmt.Sprintf("fromx%d", i)) {
				P, ok := decode.FQLiftX(v)
				if !ok {
					continue
				}
				if rapid.Bool().Draw(t, "negy") {
					P.Y = decode.FQF.E2Neg(P.Y)
				}
				return decode.FQEncode(P), false, nil
			}
			e := make([]byte, 32)
			copy(e, vlib.LE(v.A, 16))
			copy(e[16:], vlib.LE(v.B, 16))
			if rapid.Bool().Draw(t, fmt.Sprintf("sign%d", i)) {
				e[31] |= 0x80
			}
			if decode.FQDecode(e).OK {
				return e, false, nil
			}
		}
		return decode.FQEncode(decode.FQG), false, nil
	case "ref-point":
		P := drawFQPoint(t, "pt")
		return decode.FQEncode(P), false, nil
	case "small-order":
		// N·P has order dividing the cofactor 392
		P := decode.FQMul(decode.FQN, drawFQPoint(t, "pt"))
		return decode.FQEncode(P), false, nil
	default:
		b = make([]byte, 32)
		vlib.FillRandom(t, b, "rnd")
		if rapid.IntRange(0, 3).Draw(t, "clear127") != 0 {
			b[15] &= 0x7f
		}
		return b, false, nil
	}
}

var fourqUsedStates = []string{"generator", "identity", "sum", "k·G", "after-rejected-decode"}

// usedFourQ decodes b into a fresh and into a used fourq.Point and compares the observations.
func usedFourQ(t vlib.TB, sub string, b []byte) {
	var freshVal *fourq.Point
	look := func(P *fourq.Point) recvObs {
		return observe(func(o *recvObs) {
			var in [32]byte
			copy(in[:], b)
			o.accepted = P.Unmarshal(&in)
			if !o.accepted {
				return
			}
			var g, sum fourq.Point
			g.SetGenerator()
			sum.Add(P, &g)
			var so [32]byte
			sum.Marshal(&so)
			var out [32]byte
			P.Marshal(&out)
			x, y := fqToE2(&P.X), fqToE2(&P.Y)
			o.views = [][]byte{out[:], x.A.Bytes(), x.B.Bytes(), y.A.Bytes(), y.B.Bytes(), so[:]}
			o.flags = []bool{P.IsOnCurve(), P.IsIdentity()}
		})
	}
	fp := new(fourq.Point)
	fresh := look(fp)
	if fresh.accepted && fresh.pan == "" {
		freshVal = fp
	}
	_ = freshVal
	st := recvState(b, len(fourqUsedStates))
	up := new(fourq.Point)
	up.SetGenerator()
	switch st {
	case 1:
		up.SetIdentity()
	case 2:
		var g fourq.Point
		g.SetGenerator()
		up.Add(up, &g)
	case 3:
		var k [32]byte
		vlib.ExpandInto(k[:], vlib.Hash64(b))
		up.ScalarBaseMult(&k)
	case 4:
		var g [32]byte
		copy(g[:], garbage(32))
		up.Unmarshal(&g)
	}
	marshal := func() [][]byte {
		var o [32]byte
		up.Marshal(&o)
		return [][]byte{o[:]}
	}
	var before, after [][]byte
	vlib.Catch(func() { before = marshal() })
	used := look(up)
	if !used.accepted {
		vlib.Catch(func() { after = marshal() })
	}
	judgeUsed(t, sub, sub, fourqUsedStates[st], b, fresh, used, before, after)
}

func checkFourQ(t vlib.TB, b []byte, kind string, valid bool, orig *fourq.Point) (accepted bool, ref decode.FQResult) {
	const sub = "fourq.Point.Unmarshal"
	vlib.Eval(sub)
	usedFourQ(t, sub, b)
	var P fourq.Point
	var in [32]byte
	copy(in[:], b)
	if pn, _ := vlib.Catch(func() { accepted = P.Unmarshal(&in) }); pn != nil {
		vlib.Class(sub, "panic(counted; property C10): "+vlib.PanicClass(pn))
		return false, ref
	}
	ref = decode.FQDecode(b)
	outcome(sub, kind, valid, accepted, ref.OK, b)
	vlib.Class(sub, "ref-stage="+ref.Stage)
	sample(sub, kind, accepted, b, "ref="+ref.Stage)
	if valid && !accepted {
		vlib.Report(t, "C09/completeness/fourq.Point.Unmarshal/rejects-library-encoding", fmt.Sprintf("input=%x", b))
		return
	}
	if refConstructed(kind) && ref.OK {
		// the library can hold this value (Point has exported coordinates) and serialise it: what Marshal gives
		// must be accepted again (completeness on library output, independent of the reference's encoder)
		var L, L2 fourq.Point
		setFq(&L.X, ref.P.X)
		setFq(&L.Y, ref.P.Y)
		var enc [32]byte
		L.Marshal(&enc)
		if !eq(enc[:], b) {
			vlib.Class(sub, "Marshal of the reference point differs from the reference encoding (counted only)")
		}
		cp := enc
		if !L2.Unmarshal(&cp) {
			vlib.Report(t, "C09/completeness/fourq.Point.Unmarshal/rejects-library-encoding", fmt.Sprintf("kind=%s point x=%v y=%v: Marshal gives %x, which Unmarshal rejects", kind, ref.P.X, ref.P.Y, enc))
			return
		}
	}
	if mustAccept(t, "fourq.Point.Unmarshal", sub, kind, ref.OK, accepted, b, ref.Stage) {
		return
	}
	if !accepted {
		return
	}
	var out [32]byte
	P.Marshal(&out)
	if !ref.OK {
		vlib.Report(t, "C09/soundness/fourq.Point.Unmarshal/"+ref.Stage, fmt.Sprintf("kind=%s input=%x accepted; the reference rejects (%s); re-serialised=%x", kind, b, ref.Stage, out))
		return
	}
	if !eq(out[:], b) {
		vlib.Report(t, "C09/soundness/fourq.Point.Unmarshal/reencode-differs", fmt.Sprintf("kind=%s input=%x re-serialised=%x", kind, b, out))
		return
	}
	if !P.IsOnCurve() {
		vlib.Report(t, "C09/soundness/fourq.Point.Unmarshal/accepted-not-on-curve", fmt.Sprintf("kind=%s input=%x", kind, b))
		return
	}
	if x, y := fqToE2(&P.X), fqToE2(&P.Y); !x.Equal(ref.P.X) || !y.Equal(ref.P.Y) {
		vlib.Report(t, "C09/soundness/fourq.Point.Unmarshal/decoded-value-differs", fmt.Sprintf("kind=%s input=%x x=%v reference x=%v", kind, b, x, ref.P.X))
		return
	}
	if valid && orig != nil {
		if !fqToE2(&orig.X).Equal(fqToE2(&P.X)) || !fqToE2(&orig.Y).Equal(fqToE2(&P.Y)) {
			vlib.Report(t, "C09/completeness/fourq.Point.Unmarshal/not-equal-after-roundtrip", fmt.Sprintf("input=%x", b))
			return
		}
	}
	return
}

// checkCurve4Q: Shared succeeds ⇒ the public key decodes (reference) and the shared
// point is a non-identity member of the order-N subgroup.
func checkCurve4Q(t *rapid.T, b []byte, kind string, ref decode.FQResult) {
	const sub = "curve4q.Shared"
	if ref.Stage == "" {
		return
	}
	vlib.Eval(sub)
	var pub, sec, shared curve4q.Key
	copy(pub[:], b)
	copy(sec[:], vlib.EdgeBytes(t, 32, "secret"))
	var ok bool
	if pn, _ := vlib.Catch(func() { ok = curve4q.Shared(&shared, &sec, &pub) }); pn != nil {
		vlib.Class(sub, "panic(counted; property C10): "+vlib.PanicClass(pn))
		return
	}
	acc := "rejected"
	if ok {
		acc = "accepted"
	}
	vlib.Class(sub, "kind="+kind+":"+acc)
	vlib.NonTrivial(sub, "shared:"+acc, b, sec[:])
	vlib.Sample(sub, kind+":"+acc, fmt.Sprintf("%s public=%x secret=%x → %s shared=%x", sub, b, sec, acc, shared))
	if !ok {
		if ref.OK && !decode.FQMul(decode.FQCo, ref.P).IsIdentity() {
			kN := new(big.Int).Mod(vlib.FromLE(sec[:]), decode.FQN)
			if kN.Sign() == 0 {
				vlib.Class(sub, "valid public key, secret ≡ 0 mod N: rejected (k·392·P is the identity)")
			} else if refConstructed(kind) || kind == "valid" {
				// a canonical key of large order and a secret that is non-zero modulo N: k·392·P cannot be the identity
				vlib.Report(t, "C09/completeness/curve4q.Shared/rejects-valid-public-key", fmt.Sprintf("kind=%s public=%x secret=%x: the key decodes (reference), 392·P ≠ O and k mod N ≠ 0, yet Shared fails", kind, b, sec))
			} else {
				vlib.Class(sub, "valid-public-of-large-order rejected (counted only)")
			}
		}
		return
	}
	if !ref.OK {
		vlib.Report(t, "C09/soundness/curve4q.Shared/"+ref.Stage, fmt.Sprintf("public=%x secret=%x: Shared succeeds on a public key the reference rejects (%s)", b, sec, ref.Stage))
		return
	}
	rs := decode.FQDecode(shared[:])
	if !rs.OK {
		vlib.Report(t, "C09/subgroup/curve4q.Shared/shared-not-a-canonical-point", fmt.Sprintf("public=%x secret=%x shared=%x (%s)", b, sec, shared, rs.Stage))
		return
	}
	if rs.P.IsIdentity() || !decode.FQMul(decode.FQN, rs.P).IsIdentity() {
		vlib.Report(t, "C09/subgroup/curve4q.Shared/shared-outside-prime-order-subgroup", fmt.Sprintf("public=%x secret=%x shared=%x identity=%v", b, sec, shared, rs.P.IsIdentity()))
		return
	}
	if decode.FQMul(decode.FQCo, ref.P).IsIdentity() {
		vlib.Report(t, "C09/subgroup/curve4q.Shared/small-order-public-accepted", fmt.Sprintf("public=%x secret=%x shared=%x", b, sec, shared))
		return
	}
	// value: k·(392·P) — only counted (arithmetic correctness is property C13's subject)
	want := decode.FQMul(vlib.FromLE(sec[:]), decode.FQMul(decode.FQCo, ref.P))
	if want.Equal(rs.P) {
		vlib.Class(sub, "shared == k·392·P of the reference")
	} else {
		vlib.Class(sub, "shared != k·392·P of the reference (counted only)")
	}
}

func TestC09FourQ(t *testing.T) {
	defer vlib.Done()
	selftest(t)
	vlib.Check(t, vlib.N(900, 4000), func(t *rapid.T) {
		kind := rapid.SampledFrom(fourqKinds).Draw(t, "kind")
		b, valid, orig := genFourQ(t, kind)
		_, ref := checkFourQ(t, b, kind, valid, orig)
		if rapid.IntRange(0, 2).Draw(t, "dh") == 0 || kind == "small-order" || kind == "structured-valid" {
			checkCurve4Q(t, b, kind, ref)
		}
	})
}
