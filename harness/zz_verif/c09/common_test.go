//go:build verif

// C09 — decoders accept only canonical encodings of members of the intended group.
//
// Oracle for every format (see /verif/notes/C09.md):
//
//	soundness    circl accepts b  ⇒  the independent reference decoder (zz_verif/ref/decode)
//	             accepts b (on curve, in the subgroup where the property demands it, canonical)
//	             AND re-serialising the decoded value in the same format gives exactly b.
//	completeness every encoding produced by the library decodes again and compares equal.
//	"reference accepts ⇒ circl accepts" is only counted (class ref-accepts/circl-rejects).
package c09

import (
	"bytes"
	"fmt"
	"math/big"
	"strings"

	"github.com/cloudflare/circl/zz_verif/vlib"
	"pgregory.net/rapid"
)

// drawBelow draws an integer in [0, n) (n > 0): small, n-small or uniform.
func drawBelow(t *rapid.T, n *big.Int, label string) *big.Int {
	switch rapid.IntRange(0, 5).Draw(t, label+".k") {
	case 0:
		v := big.NewInt(int64(rapid.IntRange(0, 40).Draw(t, label+".s")))
		if v.Cmp(n) < 0 {
			return v
		}
		return new(big.Int)
	case 1:
		v := new(big.Int).Sub(n, big.NewInt(int64(rapid.IntRange(1, 40).Draw(t, label+".s"))))
		if v.Sign() >= 0 {
			return v
		}
		return new(big.Int)
	}
	b := make([]byte, (n.BitLen()+7)/8+8)
	vlib.FillRandom(t, b, label)
	v := new(big.Int).SetBytes(b)
	return v.Mod(v, n)
}

// drawRange draws an integer in [lo, hi).
func drawRange(t *rapid.T, lo, hi *big.Int, label string) *big.Int {
	w := new(big.Int).Sub(hi, lo)
	if w.Sign() <= 0 {
		return new(big.Int).Set(lo)
	}
	return new(big.Int).Add(lo, drawBelow(t, w, label))
}

func pow2(n uint) *big.Int { return new(big.Int).Lsh(big.NewInt(1), n) }

// flipBit draws a bit position, biased (1/3) towards the listed hot bytes.
func flipBit(t *rapid.T, b []byte, hot []int, label string) ([]byte, int) {
	o := append([]byte{}, b...)
	var i int
	if len(hot) > 0 && rapid.IntRange(0, 2).Draw(t, label+".hot") == 0 {
		by := rapid.SampledFrom(hot).Draw(t, label+".hotbyte")
		if by >= len(b) {
			by = len(b) - 1
		}
		i = by*8 + rapid.IntRange(0, 7).Draw(t, label+".hotbit")
	} else {
		i = rapid.IntRange(0, 8*len(b)-1).Draw(t, label+".bit")
	}
	o[i/8] ^= 1 << (i % 8)
	return o, i
}

// outcome classifies one decoded case for the histogram and the non-trivial count.
func outcome(sub, kind string, valid bool, accepted, refOK bool, b []byte) {
	vlib.Class(sub, "kind="+kind)
	acc := "rejected"
	if accepted {
		acc = "accepted"
	}
	if !valid {
		vlib.NonTrivial(sub, "adversarial:"+acc, []byte(sub), b)
		vlib.Class(sub, "adversarial:"+kind+":"+acc)
	} else {
		vlib.Class(sub, "library-encoding:"+acc)
	}
	switch {
	case refOK && !accepted:
		vlib.Class(sub, "ref-accepts/circl-rejects(counted only)")
	case refOK && accepted:
		vlib.Class(sub, "ref-accepts/circl-accepts")
	case !refOK && !accepted:
		vlib.Class(sub, "ref-rejects/circl-rejects")
	}
}

func sample(sub, kind string, accepted bool, b []byte, extra string) {
	acc := "rejected"
	if accepted {
		acc = "accepted"
	}
	vlib.Sample(sub, kind+":"+acc, fmt.Sprintf("%s kind=%s input=%s → %s %s", sub, kind, vlib.Hex(b), acc, extra))
}

func eq(a, b []byte) bool { return bytes.Equal(a, b) }

func hx(b []byte) string { return fmt.Sprintf("%x", b) }

func hexInt(s string) *big.Int {
	v, ok := new(big.Int).SetString(s, 16)
	if !ok {
		panic("bad hex " + s)
	}
	return v
}

// refConstructed tells whether the inputs of this generator kind are built by the reference as
// canonical encodings of members (structured points, solved curve equations, torsion points). For
// these kinds the reference decides validity, and a valid one must be accepted: it is a value the
// library can hold and serialise, so the completeness half of the property applies to it.
func refConstructed(kind string) bool {
	switch kind {
	case "special-x", "ref-point", "small-order", "low-order":
		return true
	}
	return strings.HasPrefix(kind, "structured")
}

// mustAccept reports a completeness violation when a reference-constructed valid encoding is refused.
func mustAccept(t vlib.TB, entry, sub, kind string, refOK, accepted bool, b []byte, stage string) bool {
	if !refConstructed(kind) || !refOK {
		return false
	}
	vlib.Class(sub, "reference-constructed valid encoding ("+kind+")")
	if accepted {
		return false
	}
	vlib.Report(t, "C09/completeness/"+entry+"/rejects-valid-encoding", fmt.Sprintf("kind=%s input=%x is the canonical encoding of a member (reference: %s) but is rejected", kind, b, stage))
	return true
}

// drawStructured draws a field value with structure: 0, ±1, ±small, 2^k, 2^k−1, (p±1)/2, squares.
func drawStructured(t *rapid.T, p *big.Int, label string) *big.Int {
	var v *big.Int
	switch rapid.IntRange(0, 7).Draw(t, label+".sk") {
	case 0:
		v = big.NewInt(int64(rapid.IntRange(0, 3).Draw(t, label+".v")))
	case 1:
		v = big.NewInt(int64(rapid.IntRange(0, 200).Draw(t, label+".v")))
	case 2:
		v = new(big.Int).Sub(p, big.NewInt(int64(rapid.IntRange(1, 200).Draw(t, label+".v"))))
	case 3:
		v = pow2(uint(rapid.IntRange(1, p.BitLen()-1).Draw(t, label+".e")))
	case 4:
		v = new(big.Int).Sub(pow2(uint(rapid.IntRange(1, p.BitLen()-1).Draw(t, label+".e"))), big.NewInt(1))
	case 5:
		v = new(big.Int).Rsh(p, 1)
		if rapid.Bool().Draw(t, label+".up") {
			v.Add(v, big.NewInt(1))
		}
	case 6:
		r := int64(rapid.IntRange(2, 60).Draw(t, label+".r"))
		v = big.NewInt(r * r)
		if rapid.Bool().Draw(t, label+".neg") {
			v.Sub(p, v)
		}
	default:
		v = new(big.Int).Sub(p, big.NewInt(1))
	}
	return v.Mod(v, p)
}

// ---------------------------------------------------------------------------
// decoding into used receivers
//
// Every decoder with a receiver is run a second time into an object that already holds something
// (another valid value, the identity, the unnormalised result of an arithmetic operation, the
// remains of a rejected decode). The property speaks about the value a decoder yields, whatever the
// receiver held before: the verdict must be the one obtained with a fresh receiver, and for an
// accepted input every observation of the value (re-encodings in all formats, IsIdentity,
// membership predicate, equality with the freshly decoded value in both directions) must be the
// same. The fresh decode is judged against the reference by the main oracle, so agreement with it
// carries the reference's verdict over to the used receiver.

type recvObs struct {
	accepted bool
	pan      string   // panic during decode or observation ("" if none)
	views    [][]byte // serialisations of the decoded value
	flags    []bool   // predicates on the decoded value
}

// observe runs f under recover; f fills o.
func observe(f func(o *recvObs)) recvObs {
	var o recvObs
	if pn, _ := vlib.Catch(func() { f(&o) }); pn != nil {
		o.pan = vlib.PanicClass(pn)
	}
	return o
}

func (o recvObs) String() string {
	return fmt.Sprintf("{accepted=%v panic=%q views=%x flags=%v}", o.accepted, o.pan, o.views, o.flags)
}

// judgeUsed compares the observation made with a used receiver with the one of a fresh receiver.
// before/after are serialisations of the used receiver before the call and after a rejected call
// (nil if not observable); a change is only recorded.
func judgeUsed(t vlib.TB, entry, sub, state string, b []byte, fresh, used recvObs, before, after [][]byte) {
	vlib.Class(sub, "used-receiver state="+state)
	if fresh.pan != "" {
		// the fresh decode itself panics: property C10's subject, nothing to compare
		return
	}
	detail := func() string {
		return fmt.Sprintf("receiver state=%s input=%x fresh=%v used=%v", state, b, fresh, used)
	}
	if used.pan != "" {
		vlib.Report(t, "C09/receiver/"+entry+"/panics-with-used-receiver", detail())
		return
	}
	if used.accepted != fresh.accepted {
		vlib.Report(t, "C09/receiver/"+entry+"/verdict-differs", detail())
		return
	}
	if !used.accepted {
		if before != nil && after != nil {
			same := len(before) == len(after)
			for i := 0; same && i < len(before); i++ {
				same = eq(before[i], after[i])
			}
			if same {
				vlib.Class(sub, "used-receiver rejected input: receiver unchanged")
			} else {
				vlib.Class(sub, "used-receiver rejected input: receiver CHANGED (recorded only)")
			}
		}
		return
	}
	vlib.Class(sub, "used-receiver accepted: compared with fresh decode")
	ok := len(used.views) == len(fresh.views) && len(used.flags) == len(fresh.flags)
	for i := 0; ok && i < len(used.views); i++ {
		ok = eq(used.views[i], fresh.views[i])
	}
	for i := 0; ok && i < len(used.flags); i++ {
		ok = used.flags[i] == fresh.flags[i]
	}
	if !ok {
		vlib.Report(t, "C09/receiver/"+entry+"/value-differs", detail())
	}
}

// recvState picks the state of the used receiver as a function of the input.
func recvState(b []byte, n int) int { return int(vlib.Hash64([]byte("recv"), b) % uint64(n)) }

// garbage is an input every decoder rejects (used to leave a receiver in its after-failure state).
func garbage(n int) []byte {
	g := make([]byte, n)
	for i := range g {
		g[i] = 0xff
	}
	return g
}
