//go:build verif

package c09

import (
	"crypto/sha512"
	"fmt"
	"math/big"
	"strings"
	"testing"

	"github.com/cloudflare/circl/group"
	"github.com/cloudflare/circl/kem"
	"github.com/cloudflare/circl/kem/mlkem/mlkem1024"
	"github.com/cloudflare/circl/kem/mlkem/mlkem512"
	"github.com/cloudflare/circl/kem/mlkem/mlkem768"
	"github.com/cloudflare/circl/kem/schemes"
	"github.com/cloudflare/circl/oprf"
	"github.com/cloudflare/circl/sign/ed25519"
	"github.com/cloudflare/circl/zz_verif/ref/decode"
	"github.com/cloudflare/circl/zz_verif/vlib"
	"pgregory.net/rapid"
)

// ---------------------------------------------------------------------------
// Ed25519 public keys at verification (black box).
//
// For a public key A' that encodes a point of order dividing 8, the signature
// (R = enc(S·B), S) verifies for a message whose challenge h ≡ 0 (mod 8):
// S·B − h·A = S·B. So Verify(A', M, sig) is true exactly when the decoder
// accepted A' — which makes the decoder's verdict on the low-order and
// non-canonical encodings observable without knowing a discrete logarithm.

func forgeLowOrder(t *rapid.T, pk []byte) (msg, sig []byte) {
	s := drawBelow(t, decode.L25519, "S")
	R := decode.Ed25519Encode(decode.Ed25519Mul(s, decode.B25519))
	base := vlib.Bytes(t, 0, 24, "msg")
	for ctr := 0; ctr < 4000; ctr++ {
		m := append(append([]byte{}, base...), byte(ctr), byte(ctr>>8))
		h := sha512.New()
		h.Write(R)
		h.Write(pk)
		h.Write(m)
		hv := vlib.FromLE(h.Sum(nil))
		hr := new(big.Int).Mod(hv, decode.L25519)
		if hv.Bit(0)|hv.Bit(1)|hv.Bit(2) == 0 && hr.Bit(0)|hr.Bit(1)|hr.Bit(2) == 0 {
			return m, append(append([]byte{}, R...), vlib.LE(s, 32)...)
		}
	}
	t.Fatalf("harness: no message with h ≡ 0 mod 8 in 4000 tries")
	return nil, nil
}

func TestC09Ed25519Verify(t *testing.T) {
	defer vlib.Done()
	selftest(t)
	const sub = "ed25519.Verify/public-key"
	p := decode.P25519
	vlib.Check(t, vlib.N(250, 2500), func(t *rapid.T) {
		kind := rapid.SampledFrom([]string{"library-key", "torsion-canonical", "torsion-canonical", "identity-y=p+1", "order4-y=p", "x-zero-sign", "torsion-signflip"}).Draw(t, "kind")
		vlib.Eval(sub)
		if kind == "library-key" {
			// completeness: a key derived by the library verifies its own signature
			seed := vlib.EdgeBytes(t, ed25519.SeedSize, "seed")
			sk := ed25519.NewKeyFromSeed(seed)
			pk := sk.Public().(ed25519.PublicKey)
			msg := vlib.Msg(t, "m")
			sig := ed25519.Sign(sk, msg)
			vlib.Class(sub, "kind="+kind)
			if !ed25519.Verify(pk, msg, sig) {
				vlib.Report(t, "C09/completeness/ed25519.Verify/library-key-rejected", fmt.Sprintf("seed=%x msg=%x", seed, msg))
				return
			}
			if r := decode.Ed25519Decode(pk); !r.OK {
				vlib.Report(t, "C09/soundness/ed25519.Verify/library-key-not-canonical", fmt.Sprintf("seed=%x pk=%x ref=%s", seed, pk, r.Stage))
			}
			return
		}
		// an 8-torsion point T = L·P
		var T decode.EPoint
		for i := 0; ; i++ {
			e := vlib.LE(drawBelow(t, p, fmt.Sprintf("y%d", i)), 32)
			if r := decode.Ed25519Decode(e); r.OK {
				T = decode.Ed25519Mul(decode.L25519, r.P)
				break
			}
		}
		pk := decode.Ed25519Encode(T)
		switch kind {
		case "identity-y=p+1":
			pk = vlib.LE(new(big.Int).Add(p, big.NewInt(1)), 32)
			if rapid.Bool().Draw(t, "sign") {
				pk[31] |= 0x80
			}
		case "order4-y=p":
			pk = vlib.LE(p, 32)
			if rapid.Bool().Draw(t, "sign") {
				pk[31] |= 0x80
			}
		case "x-zero-sign":
			y := big.NewInt(1)
			if rapid.Bool().Draw(t, "minus1") {
				y = new(big.Int).Sub(p, big.NewInt(1))
			}
			pk = vlib.LE(y, 32)
			pk[31] |= 0x80
		case "torsion-signflip":
			pk[31] ^= 0x80 // -T (canonical) or, for x = 0, the forbidden sign
		}
		msg, sig := forgeLowOrder(t, pk)
		var ok bool
		if pn, _ := vlib.Catch(func() { ok = ed25519.Verify(ed25519.PublicKey(pk), msg, sig) }); pn != nil {
			vlib.Class(sub, "panic(counted; property C10): "+vlib.PanicClass(pn))
			return
		}
		ref := decode.Ed25519Decode(pk)
		acc := "rejected"
		if ok {
			acc = "accepted"
		}
		vlib.Class(sub, "kind="+kind+":"+acc)
		vlib.Class(sub, "ref-stage="+ref.Stage)
		vlib.NonTrivial(sub, "adversarial:"+acc, pk, msg, sig)
		vlib.Sample(sub, kind+":"+acc, fmt.Sprintf("%s pk=%x msg=%x sig=%x → %s ref=%s", sub, pk, msg, sig, acc, ref.Stage))
		if ok && !ref.OK {
			vlib.Report(t, "C09/soundness/ed25519.Verify/"+ref.Stage, fmt.Sprintf("pk=%x msg=%x sig=%x verifies although RFC 8032 §5.1.3 rejects the public key (%s)", pk, msg, sig, ref.Stage))
			return
		}
		if !ok && ref.OK {
			vlib.Class(sub, "ref-accepts/circl-rejects(counted only)")
		}
	})
}

// ---------------------------------------------------------------------------
// group.Element of P-256 / P-384 / P-521 (SEC 1) and ristretto255 (RFC 9496),
// and OPRF public keys over the same groups.

var groupUsedStates = []string{"generator", "identity", "sum", "random-element", "after-rejected-decode", "same-input-twice"}

// usedElement decodes b into a fresh group.Element and into one that already holds a value and
// compares verdict, both serialisations, IsIdentity and equality with the freshly decoded element.
func usedElement(t vlib.TB, g group.Group, entry, sub string, b []byte) {
	var freshVal group.Element
	look := func(e group.Element) recvObs {
		return observe(func(o *recvObs) {
			o.accepted = e.UnmarshalBinary(b) == nil
			if !o.accepted {
				return
			}
			// arithmetic first: marshalling may normalise the element
			d, _ := g.NewElement().Dbl(e).MarshalBinary()
			a, _ := g.NewElement().Add(e, g.Generator()).MarshalBinary()
			u, err1 := e.MarshalBinary()
			c, err2 := e.MarshalBinaryCompress()
			o.views = [][]byte{u, c, d, a}
			o.flags = []bool{err1 == nil, err2 == nil, e.IsIdentity()}
			if freshVal != nil {
				o.flags = append(o.flags, e.IsEqual(freshVal), freshVal.IsEqual(e))
			} else {
				o.flags = append(o.flags, true, true)
			}
		})
	}
	fe := g.NewElement()
	fresh := look(fe)
	if fresh.accepted && fresh.pan == "" {
		freshVal = fe
	}
	st := recvState(b, len(groupUsedStates))
	var ue group.Element
	switch st {
	case 0:
		ue = g.Generator()
	case 1:
		ue = g.Identity()
	case 2:
		ue = g.NewElement().Add(g.Generator(), g.NewElement().Dbl(g.Generator()))
	case 3:
		ue = g.RandomElement(vlib.NewReader(vlib.Hash64(b)))
	case 4:
		ue = g.Generator()
		vlib.Catch(func() { _ = ue.UnmarshalBinary(garbage(len(b))) })
	default:
		ue = g.Generator()
		vlib.Catch(func() { _ = ue.UnmarshalBinary(b) })
	}
	ser := func() [][]byte {
		o, _ := ue.MarshalBinary()
		return [][]byte{o}
	}
	var before, after [][]byte
	vlib.Catch(func() { before = ser() })
	used := look(ue)
	if !used.accepted {
		vlib.Catch(func() { after = ser() })
	}
	judgeUsed(t, entry, sub, groupUsedStates[st], b, fresh, used, before, after)
}

// usedOPRFKey does the same for oprf.PublicKey (only MarshalBinary is observable).
func usedOPRFKey(t vlib.TB, suite oprf.Suite, entry, sub string, b []byte) {
	look := func(pk *oprf.PublicKey) recvObs {
		return observe(func(o *recvObs) {
			o.accepted = pk.UnmarshalBinary(suite, b) == nil
			if !o.accepted {
				return
			}
			out, err := pk.MarshalBinary()
			o.views = [][]byte{out}
			o.flags = []bool{err == nil}
		})
	}
	fresh := look(new(oprf.PublicKey))
	states := []string{"other-key", "after-rejected-decode", "same-input-twice"}
	st := recvState(b, len(states))
	up := new(oprf.PublicKey)
	switch st {
	case 0:
		seed := make([]byte, 32)
		vlib.ExpandInto(seed, vlib.Hash64(b))
		sk, err := oprf.DeriveKey(suite, oprf.VerifiableMode, seed, nil)
		if err != nil {
			return
		}
		up = sk.Public()
	case 1:
		vlib.Catch(func() { _ = up.UnmarshalBinary(suite, garbage(len(b))) })
	default:
		vlib.Catch(func() { _ = up.UnmarshalBinary(suite, b) })
	}
	used := look(up)
	judgeUsed(t, entry, sub, states[st], b, fresh, used, nil, nil)
}

type secFmt struct {
	name string
	g    group.Group
	c    *decode.SECCurve
}

var secFmts = []secFmt{
	{"group.P256", group.P256, decode.SECP256},
	{"group.P384", group.P384, decode.SECP384},
	{"group.P521", group.P521, decode.SECP521},
}

var secKinds = []string{"valid", "bitflip", "bitflip", "prefix", "prefix", "coord>=p", "coord>=p", "not-on-curve", "twist", "structured-valid", "structured-valid", "unused-high-bits", "identity-forms", "random"}

func drawGroupElement(t *rapid.T, g group.Group) group.Element {
	switch rapid.IntRange(0, 11).Draw(t, "which") {
	case 0:
		return g.Identity()
	case 1:
		return g.Generator()
	case 2:
		return g.HashToElement(vlib.Bytes(t, 0, 24, "hm"), []byte("C09"))
	}
	return g.RandomElement(vlib.DrawReader(t, "elt"))
}

// liftSEC finds (x, y) on y² = x³ − 3x + b' for x near a drawn start.
func liftSEC(t *rapid.T, c *decode.SECCurve, bAlt *big.Int, start *big.Int) (x, y *big.Int) {
	f := c.F
	x = new(big.Int).Set(start)
	for i := 0; i < 400; i++ {
		rhs := f.Add(f.Sub(f.Mul(f.Sqr(x), x), f.Mul(big.NewInt(3), x)), bAlt)
		if r, ok := f.Sqrt(rhs); ok {
			return x, r
		}
		x = f.Add(x, big.NewInt(1))
	}
	t.Fatalf("harness: no liftable x")
	return nil, nil
}

func genSEC(t *rapid.T, f secFmt, kind string) (b []byte, valid bool, orig group.Element) {
	c := f.c
	n := c.Size
	comp := rapid.Bool().Draw(t, "compressed")
	lib := func() ([]byte, group.Element) {
		e := drawGroupElement(t, f.g)
		var enc []byte
		var err error
		if comp {
			enc, err = e.MarshalBinaryCompress()
		} else {
			enc, err = e.MarshalBinary()
		}
		if err != nil {
			t.Fatalf("harness: marshal: %v", err)
		}
		return enc, e
	}
	enc := func(prefix byte, coords ...*big.Int) []byte {
		out := []byte{prefix}
		for _, v := range coords {
			out = append(out, v.FillBytes(make([]byte, n))...)
		}
		return out
	}
	p := c.F.P
	max := pow2(uint(8 * n))
	switch kind {
	case "valid":
		b, orig = lib()
		return b, true, orig
	case "bitflip":
		v, _ := lib()
		b, _ = flipBit(t, v, []int{0, 0, 1, len(v) - 1}, "flip")
		return b, false, nil
	case "prefix":
		v, _ := lib()
		b = append([]byte{}, v...)
		b[0] = rapid.SampledFrom([]byte{0, 1, 2, 3, 4, 5, 6, 7, 8, 0x82, 0x84, 0xff}).Draw(t, "prefix")
		return b, eq(b, v), nil
	case "coord>=p":
		// x (or y) := value in [p, 2^bits): p + x0 for a small x0 on the curve (a true alias), p + small, uniform
		x0, y0 := liftSEC(t, c, c.B, big.NewInt(int64(rapid.IntRange(0, 2000).Draw(t, "x0"))))
		if rapid.Bool().Draw(t, "negy") {
			y0 = c.F.Neg(y0)
		}
		x := new(big.Int).Add(p, x0)
		if x.Cmp(max) >= 0 || rapid.IntRange(0, 3).Draw(t, "uniform") == 0 {
			x = drawRange(t, p, max, "over")
		}
		if comp {
			return enc(2|byte(y0.Bit(0)), x), false, nil
		}
		switch rapid.IntRange(0, 2).Draw(t, "which") {
		case 0:
			return enc(4, x, y0), false, nil
		case 1:
			y := new(big.Int).Add(p, y0)
			if y.Cmp(max) >= 0 {
				y = drawRange(t, p, max, "overy")
			}
			return enc(4, x0, y), false, nil
		default:
			// P-521 only: x0 + j·p still fits in 66 bytes for j < 128
			j := big.NewInt(int64(rapid.IntRange(1, 127).Draw(t, "j")))
			x = new(big.Int).Add(x0, new(big.Int).Mul(j, p))
			if x.Cmp(max) >= 0 {
				x = new(big.Int).Add(p, x0)
				if x.Cmp(max) >= 0 {
					x = new(big.Int).Sub(max, big.NewInt(1))
				}
			}
			return enc(4, x, y0), false, nil
		}
	case "not-on-curve":
		if comp {
			// x for which x³ − 3x + b is a non-residue
			x := drawBelow(t, p, "x")
			for i := 0; i < 200; i++ {
				if r := c.Decode(enc(2, x)); !r.OK {
					break
				}
				x = c.F.Add(x, big.NewInt(1))
			}
			return enc(2|byte(rapid.IntRange(0, 1).Draw(t, "par")), x), false, nil
		}
		x0, y0 := liftSEC(t, c, c.B, drawBelow(t, p, "x"))
		switch rapid.IntRange(0, 2).Draw(t, "how") {
		case 0:
			y0 = c.F.Add(y0, big.NewInt(1))
		case 1:
			x0, y0 = y0, x0
		default:
			y0 = drawBelow(t, p, "y")
		}
		return enc(4, x0, y0), false, nil
	case "structured-valid":
		// members built by the reference: x structured (0, small, 2^k, near p, (p±1)/2; moved up to the next x that
		// is on the curve), either root y, both formats; or the identity
		if rapid.IntRange(0, 19).Draw(t, "identity") == 0 {
			return []byte{0}, false, nil
		}
		x0, y0 := liftSEC(t, c, c.B, drawStructured(t, p, "x"))
		if rapid.Bool().Draw(t, "negy") {
			y0 = c.F.Neg(y0)
		}
		if comp {
			return enc(2|byte(y0.Bit(0)), x0), false, nil
		}
		return enc(4, x0, y0), false, nil
	case "twist":
		// a point of y² = x³ − 3x + b' (invalid-curve attack), uncompressed
		bAlt := drawBelow(t, p, "b'")
		x0, y0 := liftSEC(t, c, bAlt, drawBelow(t, p, "x"))
		return enc(4, x0, y0), false, nil
	case "unused-high-bits":
		// P-521 has 7 unused bits in the top octet of each coordinate; for P-256/384 this is coord>=p territory
		v, _ := lib()
		b = append([]byte{}, v...)
		if len(b) > 1 {
			off := 1
			if len(b) == 1+2*n && rapid.Bool().Draw(t, "iny") {
				off = 1 + n
			}
			b[off] |= byte(rapid.IntRange(1, 127).Draw(t, "hb")) << 1
		}
		return b, eq(b, v), nil
	case "identity-forms":
		// 0x00 at full length, 0x00 0x00, all-zero coordinates under every prefix
		l := rapid.SampledFrom([]int{1, 1 + n, 1 + 2*n}).Draw(t, "len")
		b = make([]byte, l)
		b[0] = rapid.SampledFrom([]byte{0, 0, 2, 3, 4}).Draw(t, "prefix")
		return b, false, nil
	default:
		l := rapid.SampledFrom([]int{1, 1 + n, 1 + 2*n}).Draw(t, "len")
		b = make([]byte, l)
		vlib.FillRandom(t, b, "rnd")
		if l > 1 && rapid.Bool().Draw(t, "fixprefix") {
			b[0] = 4
			if l == 1+n {
				b[0] = 2 | b[0]&1
			}
			if n == 66 {
				b[1] &= 1
			}
		}
		return b, false, nil
	}
}

func checkSEC(t vlib.TB, f secFmt, sub, entry string, b []byte, kind string, valid bool, orig group.Element,
	unmarshal func([]byte) (func(compressed bool) ([]byte, error), group.Element, error), sameFormatOnly bool) {
	vlib.Eval(sub)
	if sameFormatOnly {
		usedOPRFKey(t, oprfSuites[f.name], entry, sub, b)
	} else {
		usedElement(t, f.g, entry, sub, b)
	}
	var marshal func(bool) ([]byte, error)
	var e group.Element
	var err error
	if pn, _ := vlib.Catch(func() { marshal, e, err = unmarshal(b) }); pn != nil {
		vlib.Class(sub, "panic(counted; property C10): "+vlib.PanicClass(pn))
		return
	}
	accepted := err == nil
	ref := f.c.Decode(b)
	outcome(sub, kind, valid, accepted, ref.OK, b)
	vlib.Class(sub, "ref-stage="+ref.Stage)
	sample(sub, kind, accepted, b, "ref="+ref.Stage)
	if valid && !accepted {
		vlib.Report(t, "C09/completeness/"+entry+"/rejects-library-encoding", fmt.Sprintf("input=%x err=%v", b, err))
		return
	}
	if mustAccept(t, entry, sub, kind, ref.OK, accepted, b, ref.Stage) {
		return
	}
	if !accepted {
		return
	}
	if !ref.OK {
		vlib.Report(t, "C09/soundness/"+entry+"/"+ref.Stage, fmt.Sprintf("kind=%s input=%x accepted; SEC 1 reference rejects (%s)", kind, b, ref.Stage))
		return
	}
	comp := len(b) == 1+f.c.Size
	cOut, err1 := marshal(true)
	uOut, err2 := marshal(false)
	if err1 != nil || (!sameFormatOnly && err2 != nil) {
		vlib.Report(t, "C09/soundness/"+entry+"/marshal-error", fmt.Sprintf("input=%x: %v %v", b, err1, err2))
		return
	}
	if want := f.c.Encode(ref, true); !eq(cOut, want) {
		vlib.Report(t, "C09/soundness/"+entry+"/reencode-differs", fmt.Sprintf("kind=%s input=%x compressed re-serialisation=%x reference=%x", kind, b, cOut, want))
		return
	}
	if !sameFormatOnly {
		if want := f.c.Encode(ref, false); !eq(uOut, want) {
			vlib.Report(t, "C09/soundness/"+entry+"/reencode-differs", fmt.Sprintf("kind=%s input=%x uncompressed re-serialisation=%x reference=%x", kind, b, uOut, want))
			return
		}
	}
	// the reference accepted b, hence b is the canonical encoding of ref in its own format
	same := uOut
	if comp || len(b) == 1 || sameFormatOnly {
		same = cOut
	}
	if !(sameFormatOnly && !comp && len(b) != 1) && !eq(same, b) {
		vlib.Report(t, "C09/soundness/"+entry+"/reencode-differs", fmt.Sprintf("kind=%s input=%x same-format re-serialisation=%x", kind, b, same))
		return
	}
	if sameFormatOnly && !comp && len(b) != 1 {
		vlib.Class(sub, "uncompressed input accepted by an API that only serialises compressed (value checked against the reference)")
	}
	if e != nil && e.IsIdentity() != ref.Inf {
		vlib.Report(t, "C09/soundness/"+entry+"/decoded-value-differs", fmt.Sprintf("kind=%s input=%x IsIdentity=%v", kind, b, e.IsIdentity()))
		return
	}
	if valid && orig != nil && e != nil && !(e.IsEqual(orig) && orig.IsEqual(e)) {
		vlib.Report(t, "C09/completeness/"+entry+"/not-equal-after-roundtrip", fmt.Sprintf("input=%x", b))
		return
	}
}

func TestC09GroupSEC1(t *testing.T) {
	defer vlib.Done()
	selftest(t)
	for _, f := range secFmts {
		f := f
		t.Run(f.name, func(t *testing.T) {
			nq := 700
			if f.name == "group.P521" {
				nq = 500
			}
			vlib.Check(t, vlib.N(nq, 4000), func(t *rapid.T) {
				kind := rapid.SampledFrom(secKinds).Draw(t, "kind")
				b, valid, orig := genSEC(t, f, kind)
				checkSEC(t, f, f.name+".Element.UnmarshalBinary", f.name+".Element.UnmarshalBinary", b, kind, valid, orig,
					func(in []byte) (func(bool) ([]byte, error), group.Element, error) {
						e := f.g.NewElement()
						err := e.UnmarshalBinary(in)
						return func(c bool) ([]byte, error) {
							if c {
								return e.MarshalBinaryCompress()
							}
							return e.MarshalBinary()
						}, e, err
					}, false)
			})
		})
	}
}

var oprfSuites = map[string]oprf.Suite{"group.P256": oprf.SuiteP256, "group.P384": oprf.SuiteP384, "group.P521": oprf.SuiteP521}

func TestC09OPRFPublicKeys(t *testing.T) {
	defer vlib.Done()
	selftest(t)
	for _, f := range secFmts {
		f := f
		suite := oprfSuites[f.name]
		name := "oprf.PublicKey[" + f.name[6:] + "]"
		t.Run(name, func(t *testing.T) {
			vlib.Check(t, vlib.N(300, 2500), func(t *rapid.T) {
				kind := rapid.SampledFrom(secKinds).Draw(t, "kind")
				var b []byte
				valid := false
				if kind == "valid" || (kind == "bitflip" && rapid.Bool().Draw(t, "from-key")) {
					sk, err := oprf.DeriveKey(suite, oprf.VerifiableMode, vlib.EdgeBytes(t, 32, "seed"), vlib.Bytes(t, 0, 8, "info"))
					if err != nil {
						t.Fatalf("harness: DeriveKey: %v", err)
					}
					v, err := sk.Public().MarshalBinary()
					if err != nil {
						t.Fatalf("harness: pk marshal: %v", err)
					}
					b, valid = v, kind == "valid"
					if !valid {
						b, _ = flipBit(t, v, []int{0, 0, len(v) - 1}, "flip")
					}
				} else {
					b, _, _ = genSEC(t, f, kind)
				}
				checkSEC(t, f, name+".UnmarshalBinary", name+".UnmarshalBinary", b, kind, valid, nil,
					func(in []byte) (func(bool) ([]byte, error), group.Element, error) {
						pk := new(oprf.PublicKey)
						err := pk.UnmarshalBinary(suite, in)
						return func(bool) ([]byte, error) { return pk.MarshalBinary() }, nil, err
					}, true)
			})
		})
	}
}

// ---------------------------------------------------------------------------
// ristretto255 (group element and OPRF public key)

var r255Kinds = []string{"valid", "bitflip", "bitflip", "s>=p", "negative", "rfc-bad", "high-bit", "structured-valid", "random", "random"}

func genR255(t *rapid.T, kind string) (b []byte, valid bool, orig group.Element) {
	p := decode.P25519
	lib := func() ([]byte, group.Element) {
		e := drawGroupElement(t, group.Ristretto255)
		enc, err := e.MarshalBinary()
		if err != nil {
			t.Fatalf("harness: marshal: %v", err)
		}
		return enc, e
	}
	switch kind {
	case "valid":
		b, orig = lib()
		return b, true, orig
	case "bitflip":
		v, _ := lib()
		b, _ = flipBit(t, v, []int{0, 31, 31}, "flip")
		return b, false, nil
	case "s>=p":
		// s in [p, 2^255) — only p..p+18 — and s + 2^255 (bit 255 set)
		s := new(big.Int).Add(p, big.NewInt(int64(rapid.IntRange(0, 18).Draw(t, "k"))))
		b = vlib.LE(s, 32)
		return b, false, nil
	case "negative":
		// the negation p − s of a valid s is odd ("negative")
		v, _ := lib()
		s := vlib.FromLE(v)
		if s.Sign() == 0 {
			s = big.NewInt(1)
		} else {
			s = new(big.Int).Sub(p, s)
		}
		return vlib.LE(s, 32), false, nil
	case "structured-valid":
		// RFC 9496 A.1 multiples of the generator, or a structured s (small, 2^k, near p) that the reference accepts
		if rapid.Bool().Draw(t, "rfc") {
			return unhex(rapid.SampledFrom(ristrettoMultiples).Draw(t, "vec")), false, nil
		}
		for i := 0; ; i++ {
			sv := drawStructured(t, p, fmt.Sprintf("s%d", i))
			sv.SetBit(sv, 0, 0)
			e := vlib.LE(sv, 32)
			if decode.Ristretto255Decode(e).OK || i > 100 {
				return e, false, nil
			}
		}
	case "rfc-bad":
		return unhex(rapid.SampledFrom(ristrettoBad).Draw(t, "vec")), false, nil
	case "high-bit":
		v, _ := lib()
		b = append([]byte{}, v...)
		b[31] |= 0x80
		return b, false, nil
	default:
		b = make([]byte, 32)
		vlib.FillRandom(t, b, "rnd")
		if rapid.Bool().Draw(t, "even") {
			b[0] &= 0xfe
			b[31] &= 0x7f
		}
		return b, false, nil
	}
}

func checkR255(t vlib.TB, sub, entry string, b []byte, kind string, valid bool, orig group.Element,
	unmarshal func([]byte) (func() ([]byte, error), group.Element, error)) {
	vlib.Eval(sub)
	if strings.HasPrefix(entry, "oprf.") {
		usedOPRFKey(t, oprf.SuiteRistretto255, entry, sub, b)
	} else {
		usedElement(t, group.Ristretto255, entry, sub, b)
	}
	var marshal func() ([]byte, error)
	var e group.Element
	var err error
	if pn, _ := vlib.Catch(func() { marshal, e, err = unmarshal(b) }); pn != nil {
		vlib.Class(sub, "panic(counted; property C10): "+vlib.PanicClass(pn))
		return
	}
	accepted := err == nil
	ref := decode.Ristretto255Decode(b)
	outcome(sub, kind, valid, accepted, ref.OK, b)
	vlib.Class(sub, "ref-stage="+ref.Stage)
	sample(sub, kind, accepted, b, "ref="+ref.Stage)
	if valid && !accepted {
		vlib.Report(t, "C09/completeness/"+entry+"/rejects-library-encoding", fmt.Sprintf("input=%x err=%v", b, err))
		return
	}
	if mustAccept(t, entry, sub, kind, ref.OK, accepted, b, ref.Stage) {
		return
	}
	if !accepted {
		return
	}
	if !ref.OK {
		vlib.Report(t, "C09/soundness/"+entry+"/"+ref.Stage, fmt.Sprintf("kind=%s input=%x accepted; RFC 9496 §4.3.1 rejects (%s)", kind, b, ref.Stage))
		return
	}
	out, merr := marshal()
	if merr != nil || !eq(out, b) {
		vlib.Report(t, "C09/soundness/"+entry+"/reencode-differs", fmt.Sprintf("kind=%s input=%x re-serialised=%x err=%v", kind, b, out, merr))
		return
	}
	if want := decode.Ristretto255Encode(ref.P); !eq(want, b) {
		// the reference's own encode(decode(b)) must be b (RFC 9496: decoding is canonical) — harness self-check
		t.Fatalf("SELFTEST-FAIL ristretto255 reference: encode(decode(%x)) = %x", b, want)
	}
	if valid && orig != nil && e != nil && !(e.IsEqual(orig) && orig.IsEqual(e)) {
		vlib.Report(t, "C09/completeness/"+entry+"/not-equal-after-roundtrip", fmt.Sprintf("input=%x", b))
		return
	}
}

func TestC09Ristretto255(t *testing.T) {
	defer vlib.Done()
	selftest(t)
	t.Run("group.Ristretto255", func(t *testing.T) {
		vlib.Check(t, vlib.N(900, 6000), func(t *rapid.T) {
			kind := rapid.SampledFrom(r255Kinds).Draw(t, "kind")
			b, valid, orig := genR255(t, kind)
			checkR255(t, "group.Ristretto255.Element.UnmarshalBinary", "group.Ristretto255.Element.UnmarshalBinary", b, kind, valid, orig,
				func(in []byte) (func() ([]byte, error), group.Element, error) {
					e := group.Ristretto255.NewElement()
					err := e.UnmarshalBinary(in)
					return func() ([]byte, error) {
						c, err := e.MarshalBinaryCompress()
						u, err2 := e.MarshalBinary()
						if err != nil || err2 != nil || !eq(c, u) {
							return nil, fmt.Errorf("MarshalBinary %x / MarshalBinaryCompress %x: %v %v", u, c, err2, err)
						}
						return u, nil
					}, e, err
				})
		})
	})
	t.Run("oprf.PublicKey[Ristretto255]", func(t *testing.T) {
		vlib.Check(t, vlib.N(400, 3000), func(t *rapid.T) {
			kind := rapid.SampledFrom(r255Kinds).Draw(t, "kind")
			var b []byte
			valid := false
			if kind == "valid" {
				sk, err := oprf.DeriveKey(oprf.SuiteRistretto255, oprf.VerifiableMode, vlib.EdgeBytes(t, 32, "seed"), vlib.Bytes(t, 0, 8, "info"))
				if err != nil {
					t.Fatalf("harness: DeriveKey: %v", err)
				}
				b, _ = sk.Public().MarshalBinary()
				valid = true
			} else {
				b, _, _ = genR255(t, kind)
			}
			checkR255(t, "oprf.PublicKey[Ristretto255].UnmarshalBinary", "oprf.PublicKey[Ristretto255].UnmarshalBinary", b, kind, valid, nil,
				func(in []byte) (func() ([]byte, error), group.Element, error) {
					pk := new(oprf.PublicKey)
					err := pk.UnmarshalBinary(oprf.SuiteRistretto255, in)
					return pk.MarshalBinary, nil, err
				})
		})
	})
}

// ---------------------------------------------------------------------------
// ML-KEM encapsulation keys (FIPS 203 §7.2 modulus check)

type mlkemFmt struct {
	name string
	k    int
	off  int // offset of the ML-KEM key inside the scheme's public key
}

var mlkemFmts = []mlkemFmt{
	{"ML-KEM-512", 2, 0}, {"ML-KEM-768", 3, 0}, {"ML-KEM-1024", 4, 0},
	{"X25519MLKEM768", 3, 0}, {"X-Wing", 3, 0},
}

func setCoeff(ek []byte, i int, v uint16) {
	o := 3 * (i / 2)
	if i%2 == 0 {
		ek[o] = byte(v)
		ek[o+1] = ek[o+1]&0xf0 | byte(v>>8)
	} else {
		ek[o+1] = ek[o+1]&0x0f | byte(v<<4)
		ek[o+2] = byte(v >> 4)
	}
}

// mlkemUnpackers give access to the receiver-style decoder PublicKey.Unpack of the three ML-KEM packages.
type mlkemPK interface {
	Unpack([]byte) error
	MarshalBinary() ([]byte, error)
	Equal(kem.PublicKey) bool
}

var mlkemNew = map[string]func() mlkemPK{
	"ML-KEM-512":  func() mlkemPK { return new(mlkem512.PublicKey) },
	"ML-KEM-768":  func() mlkemPK { return new(mlkem768.PublicKey) },
	"ML-KEM-1024": func() mlkemPK { return new(mlkem1024.PublicKey) },
}

// usedMLKEM decodes b with PublicKey.Unpack into a fresh key object and into one that already
// holds another key (or the remains of a rejected decode).
func usedMLKEM(t vlib.TB, name, sub string, s kem.Scheme, b []byte) {
	mk := mlkemNew[name]
	if mk == nil {
		return
	}
	var freshVal mlkemPK
	look := func(pk mlkemPK) recvObs {
		return observe(func(o *recvObs) {
			o.accepted = pk.Unpack(b) == nil
			if !o.accepted {
				return
			}
			out, err := pk.MarshalBinary()
			o.views = [][]byte{out}
			o.flags = []bool{err == nil}
			if freshVal != nil {
				o.flags = append(o.flags, pk.Equal(freshVal.(kem.PublicKey)), freshVal.Equal(pk.(kem.PublicKey)))
			} else {
				o.flags = append(o.flags, true, true)
			}
		})
	}
	fp := mk()
	fresh := look(fp)
	if fresh.accepted && fresh.pan == "" {
		freshVal = fp
	}
	states := []string{"other-key", "after-rejected-decode", "same-input-twice"}
	st := recvState(b, len(states))
	up := mk()
	switch st {
	case 0:
		seed := make([]byte, s.SeedSize())
		vlib.ExpandInto(seed, vlib.Hash64(b))
		pk, _ := s.DeriveKeyPair(seed)
		v, _ := pk.MarshalBinary()
		_ = up.Unpack(v)
	case 1:
		_ = up.Unpack(garbage(len(b)))
	default:
		_ = up.Unpack(b)
	}
	var before, after [][]byte
	vlib.Catch(func() { o, _ := up.MarshalBinary(); before = [][]byte{o} })
	used := look(up)
	if !used.accepted {
		vlib.Catch(func() { o, _ := up.MarshalBinary(); after = [][]byte{o} })
	}
	judgeUsed(t, name+".PublicKey.Unpack", sub, states[st], b, fresh, used, before, after)
}

func TestC09MLKEM(t *testing.T) {
	defer vlib.Done()
	selftest(t)
	for _, f := range mlkemFmts {
		f := f
		s := schemes.ByName(f.name)
		if s == nil {
			t.Fatalf("harness: scheme %s not found", f.name)
		}
		sub := f.name + ".UnmarshalBinaryPublicKey"
		ekLen := 384*f.k + 32
		t.Run(f.name, func(t *testing.T) {
			vlib.Check(t, vlib.N(300, 3000), func(t *rapid.T) {
				kind := rapid.SampledFrom([]string{"valid", "bitflip", "bitflip", "coeff>=q", "coeff>=q", "coeff=q", "coeff=q-1", "all-coeffs-random", "all-0xfff", "random-rho", "structured-valid"}).Draw(t, "kind")
				seed := vlib.EdgeBytes(t, s.SeedSize(), "seed")
				pk, _ := s.DeriveKeyPair(seed)
				v, err := pk.MarshalBinary()
				if err != nil || len(v) != s.PublicKeySize() || len(v) < f.off+ekLen {
					t.Fatalf("harness: pk marshal: %v len %d", err, len(v))
				}
				b := append([]byte{}, v...)
				ek := b[f.off : f.off+ekLen]
				nc := 256 * f.k
				switch kind {
				case "bitflip":
					i := rapid.IntRange(0, 8*len(b)-1).Draw(t, "bit")
					b[i/8] ^= 1 << (i % 8)
				case "coeff>=q":
					setCoeff(ek, rapid.IntRange(0, nc-1).Draw(t, "i"), uint16(rapid.IntRange(3329, 4095).Draw(t, "v")))
				case "coeff=q":
					i := rapid.SampledFrom([]int{0, 1, nc - 2, nc - 1, rapid.IntRange(0, nc-1).Draw(t, "i")}).Draw(t, "idx")
					setCoeff(ek, i, 3329)
				case "coeff=q-1":
					setCoeff(ek, rapid.IntRange(0, nc-1).Draw(t, "i"), 3328)
				case "all-coeffs-random":
					vlib.FillRandom(t, ek[:384*f.k], "coeffs")
				case "all-0xfff":
					for i := 0; i < 384*f.k; i++ {
						ek[i] = 0xff
					}
				case "random-rho":
					vlib.FillRandom(t, ek[384*f.k:], "rho")
				case "structured-valid":
					// every coefficient reduced: all 0, all q−1, a ramp, or powers of two; ρ all-zero / all-ones / kept
					pat := rapid.IntRange(0, 3).Draw(t, "pattern")
					for i := 0; i < nc; i++ {
						v := uint16(0)
						switch pat {
						case 1:
							v = 3328
						case 2:
							v = uint16(i % 3329)
						case 3:
							v = uint16(1) << uint(i%12)
							if v >= 3329 {
								v = 3328
							}
						}
						setCoeff(ek, i, v)
					}
					switch rapid.IntRange(0, 2).Draw(t, "rho") {
					case 0:
						for i := 384 * f.k; i < ekLen; i++ {
							ek[i] = 0
						}
					case 1:
						for i := 384 * f.k; i < ekLen; i++ {
							ek[i] = 0xff
						}
					}
				}
				valid := eq(b, v)
				vlib.Eval(sub)
				usedMLKEM(t, f.name, sub, s, b)
				var pk2 kem.PublicKey
				if pn, _ := vlib.Catch(func() { pk2, err = s.UnmarshalBinaryPublicKey(b) }); pn != nil {
					vlib.Class(sub, "panic(counted; property C10): "+vlib.PanicClass(pn))
					return
				}
				accepted := err == nil
				refOK, stage, bad := decode.MLKEMEkOK(f.k, ek)
				outcome(sub, kind, valid, accepted, refOK, b)
				vlib.Class(sub, "ref-stage="+stage)
				sample(sub, kind, accepted, b, fmt.Sprintf("ref=%s coefficient=%d", stage, bad))
				if valid && !accepted {
					vlib.Report(t, "C09/completeness/"+sub+"/rejects-library-encoding", fmt.Sprintf("seed=%x err=%v", seed, err))
					return
				}
				if mustAccept(t, sub, sub, kind, refOK, accepted, b, stage) {
					return
				}
				if !accepted {
					return
				}
				if !refOK {
					vlib.Report(t, "C09/soundness/"+sub+"/modulus-check", fmt.Sprintf("kind=%s seed=%x: coefficient %d of the encapsulation key is >= q but the key is accepted (key %s)", kind, seed, bad, vlib.Hex(b)))
					return
				}
				out, merr := pk2.MarshalBinary()
				if merr != nil || !eq(out, b) {
					vlib.Report(t, "C09/soundness/"+sub+"/reencode-differs", fmt.Sprintf("kind=%s seed=%x input=%s re-serialised=%s", kind, seed, vlib.Hex(b), vlib.Hex(out)))
					return
				}
				if valid && !(pk2.Equal(pk) && pk.Equal(pk2)) {
					vlib.Report(t, "C09/completeness/"+sub+"/not-equal-after-roundtrip", fmt.Sprintf("seed=%x", seed))
					return
				}
			})
		})
	}
}
