//go:build verif

package c09

import (
	"crypto/ecdh"
	"crypto/elliptic"
	"crypto/sha512"
	"encoding/hex"
	"fmt"
	"math/big"
	"os"
	"path/filepath"
	"sync"
	"testing"

	"github.com/cloudflare/circl/zz_verif/ref/decode"
	"github.com/cloudflare/circl/zz_verif/vlib"
)

var (
	selfOnce sync.Once
	selfErr  []string
)

func unhex(s string) []byte {
	b, err := hex.DecodeString(s)
	if err != nil {
		panic(err)
	}
	return b
}

// selftest validates the reference decoders against published vectors and
// algebraic identities that do not involve circl code. A failure is a harness
// error (SELFTEST-FAIL → exit 2), never a violation.
func selftest(t *testing.T) {
	selfOnce.Do(runSelftest)
	if len(selfErr) > 0 {
		for _, e := range selfErr {
			fmt.Println("SELFTEST-FAIL " + e)
		}
		t.Fatalf("SELFTEST-FAIL: %d reference self-test failure(s): %v", len(selfErr), selfErr)
	}
}

func sfail(name, format string, a ...interface{}) {
	selfErr = append(selfErr, name+": "+fmt.Sprintf(format, a...))
}

func runSelftest() {
	stBLS()
	stEd25519()
	stEd448()
	stRistretto()
	stFourQ()
	stSEC1()
	stMLKEM()
	for _, n := range []string{"bls12381-zcash-vectors", "ed25519-rfc8032", "ed448-rfc8032", "ristretto255-rfc9496", "fourq-algebra", "sec1-vs-crypto/elliptic+ecdh", "mlkem-modulus"} {
		ok := "ok"
		for _, e := range selfErr {
			if len(e) >= len(n) && e[:len(n)] == n {
				ok = "FAIL"
			}
		}
		vlib.Selftest("C09 ref/decode "+n, ok)
	}
}

func stBLS() {
	const n = "bls12381-zcash-vectors"
	g1c := unhex("97f1d3a73197d7942695638c4fa9ac0fc3688c4f9774b905a14e3a3f171bac586c55e83ff97a1aeffb3af00adb22c6bb")
	g2c := unhex("93e02b6052719f607dacd3a088274f65596bd0d09920b61ab5da61bbdc7f5049334cf11213945d57e5ac7d055d042b7e024aa2b2f08f0a91260805272dc51051c6e47ad4fa403b02b4510b647ae3d1770bac0326a805bbefd48056c8c121bdb8")
	for _, c := range []struct {
		g   decode.BLSGroup
		enc []byte
	}{{1, g1c}, {2, g2c}} {
		gen := decode.BLSGen(c.g)
		if !c.g.OnCurve(gen) || !c.g.InSubgroup(gen) {
			sfail(n, "G%d generator not on curve / not in subgroup", c.g)
		}
		if !eq(decode.BLSEncode(c.g, gen, true), c.enc) {
			sfail(n, "G%d generator compressed encoding differs from the published one", c.g)
		}
		r := decode.BLSDecode(c.g, c.enc)
		if !r.OK || !decode.WEqual(r.P, gen) {
			sfail(n, "G%d published generator encoding does not decode to the generator (%s)", c.g, r.Stage)
		}
		// zcash vector files: i·G for i = 0..999, compressed and uncompressed
		for _, comp := range []bool{true, false} {
			name := fmt.Sprintf("g%d_uncompressed_valid_test_vectors.dat", c.g)
			sz := 2 * c.g.CoordSize()
			if comp {
				name = fmt.Sprintf("g%d_compressed_valid_test_vectors.dat", c.g)
				sz = c.g.CoordSize()
			}
			data, err := os.ReadFile(filepath.Join(vlib.Repo, "ecc/bls12381/testdata", name))
			if err != nil || len(data) != 1000*sz {
				sfail(n, "cannot read %s: %v (len %d)", name, err, len(data))
				continue
			}
			acc := decode.WPoint{Inf: true}
			for i := 0; i < 1000; i++ {
				v := data[i*sz : (i+1)*sz]
				if i < 24 || i%97 == 0 {
					r := decode.BLSDecode(c.g, v)
					if !r.OK {
						sfail(n, "%s[%d] rejected by the reference at stage %s", name, i, r.Stage)
						break
					}
					if !eq(decode.BLSEncode(c.g, r.P, comp), v) {
						sfail(n, "%s[%d] re-encodes differently", name, i)
						break
					}
					if i < 24 {
						if !decode.WEqual(r.P, acc) {
							sfail(n, "%s[%d] is not %d·G of the reference arithmetic", name, i, i)
							break
						}
					} else if !decode.WEqual(r.P, decode.WMul(big.NewInt(int64(i)), gen)) {
						sfail(n, "%s[%d] is not %d·G of the reference arithmetic", name, i, i)
						break
					}
				}
				if i < 24 {
					acc = decode.WMul(big.NewInt(int64(i+1)), gen)
				}
			}
		}
		// a point obtained by solving the curve equation has order dividing h·r and
		// (with overwhelming probability) is outside the r-torsion
		h := decode.BLSH1
		if c.g == 2 {
			h = decode.BLSH2
		}
		found := 0
		for k := int64(1); k < 40 && found < 2; k++ {
			x := decode.E2{A: big.NewInt(k), B: big.NewInt(0)}
			if c.g == 2 {
				x.B = big.NewInt(k + 1)
			}
			P, ok := decode.BLSLift(c.g, x, nil)
			if !ok {
				continue
			}
			found++
			if !c.g.OnCurve(P) {
				sfail(n, "G%d lifted point not on curve", c.g)
			}
			if c.g.InSubgroup(P) {
				sfail(n, "G%d lifted point x=%d unexpectedly in the r-torsion", c.g, k)
			}
			if !decode.WMul(new(big.Int).Mul(h, decode.BLSR), P).Inf {
				sfail(n, "G%d: h·r·P != O for a lifted point (curve arithmetic or cofactor wrong)", c.g)
			}
			if !c.g.InSubgroup(decode.WMul(h, P)) {
				sfail(n, "G%d: h·P is not in the r-torsion", c.g)
			}
		}
		if found == 0 {
			sfail(n, "G%d: no x lifted", c.g)
		}
	}
}

func stEd25519() {
	const n = "ed25519-rfc8032"
	// RFC 8032 §7.1 TEST 1..3: secret key → public key
	for _, v := range [][2]string{
		{"9d61b19deffd5a60ba844af492ec2cc44449c5697b326919703bac031cae7f60", "d75a980182b10ab7d54bfed3c964073a0ee172f3daa62325af021a68f707511a"},
		{"4ccd089b28ff96da9db6c346ec114e0f5b8a319f35aba624da8cf6ed4fb8a6fb", "3d4017c3e843895a92b70aa74d1b7ebc9c982ccf2ec4968cc0cd55f12af4660c"},
		{"c5aa8df43f9f837bedb7442f31dcb7b166d38535076f094b85ce3a2e0b4458f7", "fc51cd8e6218a1a38da47ed00230f0580816ed13ba3303ac5deb911548908025"},
	} {
		h := sha512.Sum512(unhex(v[0]))
		a := h[:32]
		a[0] &= 248
		a[31] &= 127
		a[31] |= 64
		s := vlib.FromLE(a)
		A := decode.Ed25519Mul(s, decode.B25519)
		if !eq(decode.Ed25519Encode(A), unhex(v[1])) {
			sfail(n, "public key of %s: reference gives %x", v[0][:8], decode.Ed25519Encode(A))
		}
		r := decode.Ed25519Decode(unhex(v[1]))
		if !r.OK || r.P.X.Cmp(A.X) != 0 || r.P.Y.Cmp(A.Y) != 0 || !decode.Ed25519OnCurve(r.P) {
			sfail(n, "decode of RFC public key %s failed (%s)", v[1][:8], r.Stage)
		}
	}
	// L·B = identity
	I := decode.Ed25519Mul(decode.L25519, decode.B25519)
	if I.X.Sign() != 0 || I.Y.Cmp(big.NewInt(1)) != 0 {
		sfail(n, "L·B is not the identity")
	}
	// RFC 8032 §5.1.3: y >= p rejected, x = 0 with sign 1 rejected
	bad := make([]byte, 32)
	bad[0] = 1
	bad[31] = 0x80
	if r := decode.Ed25519Decode(bad); r.OK || r.Stage != "x-zero-sign" {
		sfail(n, "(x=0, sign=1) not rejected: %s", r.Stage)
	}
	pp1 := vlib.LE(new(big.Int).Add(decode.P25519, big.NewInt(1)), 32)
	if r := decode.Ed25519Decode(pp1); r.OK || r.Stage != "y-range" {
		sfail(n, "y = p+1 not rejected: %s", r.Stage)
	}
}

func stEd448() {
	const n = "ed448-rfc8032"
	// RFC 8032 §5.2 base point
	bx, _ := new(big.Int).SetString("224580040295924300187604334099896036246789641632564134246125461686950415467406032909029192869357953282578032075146446173674602635247710", 10)
	by, _ := new(big.Int).SetString("298819210078481492676017930443930673437544040154080242095928241372331506189835876003536878655418784733982303233503462500531545062832660", 10)
	enc := vlib.LE(by, 57)
	enc[56] |= byte(bx.Bit(0)) << 7
	r := decode.Ed448Decode(enc)
	if !r.OK || r.P.X.Cmp(bx) != 0 || r.P.Y.Cmp(by) != 0 || !decode.Ed448OnCurve(r.P) {
		sfail(n, "base point does not decode to the RFC coordinates (%s)", r.Stage)
	}
	if !eq(decode.Ed448Encode(r.P), enc) {
		sfail(n, "base point re-encodes differently")
	}
	// RFC 8032 §7.4 public keys (blank, 1 octet, 1 octet with context)
	for _, pk := range []string{
		"5fd7449b59b461fd2ce787ec616ad46a1da1342485a70e1f8a0ea75d80e96778edf124769b46c7061bd6783df1e50f6cd1fa1abeafe8256180",
		"43ba28f430cdff456ae531545f7ecd0ac834a55d9358c0372bfa0c6c6798c0866aea01eb00742802b8438ea4cb82169c235160627b4c3a9480",
		"dcea9e78f35a1bf3499a831b10b86c90aac01cd84b67a0109b55a36e9328b1e365fce161d71ce7131a543ea4cb5f7e9f1d8b00696447001400",
	} {
		b := unhex(pk)
		r := decode.Ed448Decode(b)
		if !r.OK || !decode.Ed448OnCurve(r.P) || !eq(decode.Ed448Encode(r.P), b) {
			sfail(n, "RFC public key %s… rejected (%s)", pk[:8], r.Stage)
		}
		b[56] |= 0x01
		if r := decode.Ed448Decode(b); r.OK {
			sfail(n, "spare bit of the last octet accepted")
		}
	}
}

var ristrettoMultiples = []string{
	"0000000000000000000000000000000000000000000000000000000000000000",
	"e2f2ae0a6abc4e71a884a961c500515f58e30b6aa582dd8db6a65945e08d2d76",
	"6a493210f7499cd17fecb510ae0cea23a110e8d5b901f8acadd3095c73a3b919",
	"94741f5d5d52755ece4f23f044ee27d5d1ea1e2bd196b462166b16152a9d0259",
	"da80862773358b466ffadfe0b3293ab3d9fd53c5ea6c955358f568322daf6a57",
	"e882b131016b52c1d3337080187cf768423efccbb517bb495ab812c4160ff44e",
	"f64746d3c92b13050ed8d80236a7f0007c3b3f962f5ba793d19a601ebb1df403",
	"44f53520926ec81fbd5a387845beb7df85a96a24ece18738bdcfa6a7822a176d",
	"903293d8f2287ebe10e2374dc1a53e0bc887e592699f02d077d5263cdd55601c",
	"02622ace8f7303a31cafc63f8fc48fdc16e1c8c8d234b2f0d6685282a9076031",
	"20706fd788b2720a1ed2a5dad4952b01f413bcf0e7564de8cdc816689e2db95f",
	"bce83f8ba5dd2fa572864c24ba1810f9522bc6004afe95877ac73241cafdab42",
	"e4549ee16b9aa03099ca208c67adafcafa4c3f3e4e5303de6026e3ca8ff84460",
	"aa52e000df2e16f55fb1032fc33bc42742dad6bd5a8fc0be0167436c5948501f",
	"46376b80f409b29dc2b5f6f0c52591990896e5716f41477cd30085ab7f10301e",
	"e0c418f7c8d9c4cdd7395b93ea124f3ad99021bb681dfc3302a9d99a2e53e64e",
}

// RFC 9496 appendix A.3 (= ristretto.group test vectors): encodings that must be rejected.
var ristrettoBad = []string{
	"00ffffffffffffffffffffffffffffffffffffffffffffffffffffffffffffff",
	"ffffffffffffffffffffffffffffffffffffffffffffffffffffffffffffff7f",
	"f3ffffffffffffffffffffffffffffffffffffffffffffffffffffffffffff7f",
	"edffffffffffffffffffffffffffffffffffffffffffffffffffffffffffff7f",
	"0100000000000000000000000000000000000000000000000000000000000000",
	"01ffffffffffffffffffffffffffffffffffffffffffffffffffffffffffff7f",
	"ed57ffd8c914fb201471d1c3d245ce3c746fcbe63a3679d51b6a516ebebe0e20",
	"c34c4e1826e5d403b78e246e88aa051c36ccf0aafebffe137d148a2bf9104562",
	"c940e5a4404157cfb1628b108db051a8d439e1a421394ec4ebccb9ec92a8ac78",
	"47cfc5497c53dc8e61c91d17fd626ffb1c49e2bca94eed052281b510b1117a24",
	"f1c6165d33367351b0da8f6e4511010c68174a03b6581212c71c0e1d026c3c72",
	"87260f7a2f12495118360f02c26a470f450dadf34a413d21042b43b9d93e1309",
	"26948d35ca62e643e26a83177332e6b6afeb9d08e4268b650f1f5bbd8d81d371",
	"4eac077a713c57b4f4397629a4145982c661f48044dd3f96427d40b147d9742f",
	"de6a7b00deadc788eb6b6c8d20c0ae96c2f2019078fa604fee5b87d6e989ad7b",
	"bcab477be20861e01e4a0e295284146a510150d9817763caf1a6f4b422d67042",
	"2a292df7e32cababbd9de088d1d1abec9fc0440f637ed2fba145094dc14bea08",
	"f4a9e534fc0d216c44b218fa0c42d99635a0127ee2e53c712f70609649fdff22",
	"8268436f8c4126196cf64b3c7ddbda90746a378625f9813dd9b8457077256731",
	"2810e5cbc2cc4d4eece54f61c6f69758e289aa7ab440b3cbeaa21995c2f4232b",
	"3eb858e78f5a7254d8c9731174a94f76755fd3941c0ac93735c07ba14579630e",
	"a45fdc55c76448c049a1ab33f17023edfb2be3581e9c7aade8a6125215e04220",
	"d483fe813c6ba647ebbfd3ec41adca1c6130c2beeee9d9bf065c8d151c5f396e",
	"8a2e1d30050198c65a54483123960ccc38aef6848e1ec8f5f780e8523769ba32",
	"32888462f8b486c68ad7dd9610be5192bbeaf3b443951ac1a8118419d9fa097b",
	"227142501b9d4355ccba290404bde41575b037693cef1f438c47f8fbf35d1165",
	"5c37cc491da847cfeb9281d407efc41e15144c876e0170b499a96a22ed31e01e",
	"445425117cb8c90edcbc7c1cc0e74f747f2c1efa5630a967c64f287792a48a4b",
	"ecffffffffffffffffffffffffffffffffffffffffffffffffffffffffffff7f",
}

func stRistretto() {
	const n = "ristretto255-rfc9496"
	acc := decode.EPoint{X: big.NewInt(0), Y: big.NewInt(1)}
	for i, v := range ristrettoMultiples {
		b := unhex(v)
		if got := decode.Ristretto255Encode(acc); !eq(got, b) {
			sfail(n, "encode(%d·B) = %x, RFC %s", i, got, v)
		}
		r := decode.Ristretto255Decode(b)
		if !r.OK {
			sfail(n, "RFC multiple %d rejected (%s)", i, r.Stage)
		} else if !eq(decode.Ristretto255Encode(r.P), b) {
			sfail(n, "RFC multiple %d: encode(decode) differs", i)
		}
		acc = decode.Ed25519Add(acc, decode.B25519)
	}
	for _, v := range ristrettoBad {
		if r := decode.Ristretto255Decode(unhex(v)); r.OK {
			sfail(n, "RFC bad encoding %s accepted", v)
		}
	}
}

func stFourQ() {
	const n = "fourq-algebra"
	if !decode.FQOnCurve(decode.FQG) {
		sfail(n, "generator not on curve")
	}
	if !decode.FQMul(decode.FQN, decode.FQG).IsIdentity() {
		sfail(n, "N·G != identity")
	}
	if decode.FQMul(new(big.Int).Sub(decode.FQN, big.NewInt(1)), decode.FQG).IsIdentity() {
		sfail(n, "(N-1)·G == identity")
	}
	enc := decode.FQEncode(decode.FQG)
	r := decode.FQDecode(enc)
	if !r.OK || !r.P.Equal(decode.FQG) {
		sfail(n, "encode/decode of the generator (%s)", r.Stage)
	}
	// #E = 392·N: every curve point is killed by 392·N, a random one not by N
	found := 0
	for k := int64(2); k < 60 && found < 3; k++ {
		P, ok := decode.FQLiftX(decode.E2{A: big.NewInt(k), B: big.NewInt(3 * k)})
		if !ok {
			continue
		}
		found++
		if !decode.FQOnCurve(P) {
			sfail(n, "lifted point not on curve")
		}
		if !decode.FQMul(new(big.Int).Mul(decode.FQCo, decode.FQN), P).IsIdentity() {
			sfail(n, "392·N·P != identity (curve order or arithmetic wrong)")
		}
		if decode.FQMul(decode.FQN, P).IsIdentity() {
			sfail(n, "a random curve point unexpectedly in the N-torsion")
		}
		e := decode.FQEncode(P)
		r := decode.FQDecode(e)
		if !r.OK || !r.P.Equal(P) {
			sfail(n, "encode/decode round trip of a lifted point (%s)", r.Stage)
		}
		e[31] ^= 0x80
		r = decode.FQDecode(e)
		neg := decode.FQPoint{X: decode.FQF.E2Neg(P.X), Y: P.Y}
		if !r.OK || !r.P.Equal(neg) {
			sfail(n, "sign bit does not select -x (%s)", r.Stage)
		}
	}
	if found == 0 {
		sfail(n, "no x lifted")
	}
	// the alias of 0
	b := make([]byte, 32)
	copy(b, vlib.LE(decode.FQP, 16))
	if r := decode.FQDecode(b); r.OK || r.Stage != "noncanonical-coordinate" {
		sfail(n, "y0 = p not rejected as non-canonical: %s", r.Stage)
	}
}

func stSEC1() {
	const n = "sec1-vs-crypto/elliptic+ecdh"
	for _, c := range []struct {
		ref *decode.SECCurve
		std elliptic.Curve
		dh  ecdh.Curve
	}{{decode.SECP256, elliptic.P256(), ecdh.P256()}, {decode.SECP384, elliptic.P384(), ecdh.P384()}, {decode.SECP521, elliptic.P521(), ecdh.P521()}} {
		pr := c.std.Params()
		if pr.P.Cmp(c.ref.F.P) != 0 || pr.B.Cmp(c.ref.B) != 0 || pr.N.Cmp(c.ref.N) != 0 || (pr.BitSize+7)/8 != c.ref.Size {
			sfail(n, "%s constants differ from crypto/elliptic", c.ref.Name)
			continue
		}
		for k := int64(1); k <= 40; k++ {
			kb := big.NewInt(k*k*k + 7).FillBytes(make([]byte, c.ref.Size))
			x, y := c.std.ScalarBaseMult(kb)
			unc := elliptic.Marshal(c.std, x, y)
			cmp := elliptic.MarshalCompressed(c.std, x, y)
			for _, e := range [][]byte{unc, cmp} {
				r := c.ref.Decode(e)
				if !r.OK || r.X.Cmp(x) != 0 || r.Y.Cmp(y) != 0 {
					sfail(n, "%s: %x… rejected or decoded differently (%s)", c.ref.Name, e[:8], r.Stage)
					continue
				}
				if !eq(c.ref.Encode(r, len(e) == 1+c.ref.Size), e) {
					sfail(n, "%s: re-encoding differs", c.ref.Name)
				}
			}
			if _, err := c.dh.NewPublicKey(unc); err != nil {
				sfail(n, "%s: crypto/ecdh rejects a valid key", c.ref.Name)
			}
			// invalid: y+1, and compressed encodings of arbitrary x — verdict must agree with the std lib
			bad := append([]byte{}, unc...)
			bad[len(bad)-1] ^= 1
			_, err := c.dh.NewPublicKey(bad)
			if r := c.ref.Decode(bad); r.OK != (err == nil) {
				sfail(n, "%s: verdict on an off-curve point differs from crypto/ecdh", c.ref.Name)
			}
			xb := big.NewInt(k).FillBytes(make([]byte, c.ref.Size))
			ce := append([]byte{2}, xb...)
			sx, sy := elliptic.UnmarshalCompressed(c.std, ce)
			r := c.ref.Decode(ce)
			if r.OK != (sx != nil) || (r.OK && (r.X.Cmp(sx) != 0 || r.Y.Cmp(sy) != 0)) {
				sfail(n, "%s: compressed x=%d verdict/value differs from crypto/elliptic", c.ref.Name, k)
			}
		}
		// x = p (alias of 0) must be rejected by both
		pe := append([]byte{2}, pr.P.FillBytes(make([]byte, c.ref.Size))...)
		if sx, _ := elliptic.UnmarshalCompressed(c.std, pe); sx != nil || c.ref.Decode(pe).OK {
			sfail(n, "%s: x = p accepted", c.ref.Name)
		}
	}
}

func stMLKEM() {
	const n = "mlkem-modulus"
	for _, k := range []int{2, 3, 4} {
		ek := make([]byte, 384*k+32)
		if ok, _, _ := decode.MLKEMEkOK(k, ek); !ok {
			sfail(n, "all-zero key rejected")
		}
		// coefficient 5 := 3328 (largest valid) then 3329 (smallest invalid); odd index → high nibble layout
		set := func(i int, v uint16) {
			o := 3 * (i / 2)
			if i%2 == 0 {
				ek[o] = byte(v)
				ek[o+1] = ek[o+1]&0xf0 | byte(v>>8)
			} else {
				ek[o+1] = ek[o+1]&0x0f | byte(v<<4)
				ek[o+2] = byte(v >> 4)
			}
		}
		for _, i := range []int{0, 5, 256*k - 1, 256*k - 2} {
			set(i, 3328)
			if ok, _, _ := decode.MLKEMEkOK(k, ek); !ok {
				sfail(n, "coefficient %d = q-1 rejected", i)
			}
			set(i, 3329)
			if ok, _, bad := decode.MLKEMEkOK(k, ek); ok || bad != i {
				sfail(n, "coefficient %d = q accepted (bad=%d)", i, bad)
			}
			set(i, 0)
		}
		if ok, st, _ := decode.MLKEMEkOK(k, ek[:len(ek)-1]); ok || st != "length" {
			sfail(n, "short key accepted")
		}
	}
}
