//go:build verif

package c09

import (
	"fmt"
	"math/big"
	"testing"

	bls "github.com/cloudflare/circl/ecc/bls12381"
	sbls "github.com/cloudflare/circl/sign/bls"
	"github.com/cloudflare/circl/zz_verif/ref/decode"
	"github.com/cloudflare/circl/zz_verif/vlib"
	"pgregory.net/rapid"
)

// blsPoint abstracts circl's G1 / G2 for the generic check.
type blsPoint interface {
	SetBytes([]byte) error
	Bytes() []byte
	BytesCompressed() []byte
	IsIdentity() bool
}

type blsFmt struct {
	g    decode.BLSGroup
	name string
	new  func() blsPoint
	inG  func(blsPoint) bool
	// library-produced point: k·G or a hashed point
	libPoint func(t *rapid.T) blsPoint
	isEqual  func(a, b blsPoint) bool
	// used returns a receiver that already holds something (see blsUsedStates)
	used func(state int, b []byte) blsPoint
	// double returns the compressed encoding of 2·p (p is not modified)
	double func(p blsPoint) []byte
}

var blsUsedStates = []string{"generator", "identity", "sum(unnormalised)", "k·G", "after-rejected-decode"}

func usedG1(state int, b []byte) blsPoint {
	p := bls.G1Generator()
	switch state {
	case 1:
		p.SetIdentity()
	case 2:
		q := bls.G1Generator()
		q.Double()
		p.Add(p, q)
	case 3:
		k := new(bls.Scalar)
		k.SetUint64(vlib.Hash64(b) | 1)
		p.ScalarMult(k, p)
	case 4:
		_ = p.SetBytes(garbage(bls.G1Size))
	}
	return p
}

func usedG2(state int, b []byte) blsPoint {
	p := bls.G2Generator()
	switch state {
	case 1:
		p.SetIdentity()
	case 2:
		q := bls.G2Generator()
		q.Double()
		p.Add(p, q)
	case 3:
		k := new(bls.Scalar)
		k.SetUint64(vlib.Hash64(b) | 1)
		p.ScalarMult(k, p)
	case 4:
		_ = p.SetBytes(garbage(bls.G2Size))
	}
	return p
}

// usedBLS decodes b into a fresh and into a used receiver and compares the observations.
func usedBLS(t vlib.TB, f blsFmt, b []byte) {
	sub := f.name + ".SetBytes"
	var freshVal blsPoint
	look := func(p blsPoint) recvObs {
		return observe(func(o *recvObs) {
			o.accepted = p.SetBytes(b) == nil
			if !o.accepted {
				return
			}
			dbl := f.double(p) // before serialising p itself
			o.views = [][]byte{dbl, p.Bytes(), p.BytesCompressed()}
			o.flags = []bool{f.inG(p), p.IsIdentity()}
			if freshVal != nil {
				o.flags = append(o.flags, f.isEqual(p, freshVal), f.isEqual(freshVal, p))
			} else {
				o.flags = append(o.flags, true, true)
			}
		})
	}
	fp := f.new()
	fresh := look(fp)
	if fresh.accepted && fresh.pan == "" {
		freshVal = fp
	}
	st := recvState(b, len(blsUsedStates))
	up := f.used(st, b)
	var before, after [][]byte
	vlib.Catch(func() { before = [][]byte{up.Bytes()} })
	used := look(up)
	if !used.accepted {
		vlib.Catch(func() { after = [][]byte{up.Bytes()} })
	}
	judgeUsed(t, f.name+".SetBytes", sub, blsUsedStates[st], b, fresh, used, before, after)
}

func drawScalar(t *rapid.T) *bls.Scalar {
	k, _ := vlib.ScalarNear(t, decode.BLSR, 255, "k")
	k.Mod(k, decode.BLSR)
	s := new(bls.Scalar)
	if err := s.UnmarshalBinary(k.FillBytes(make([]byte, bls.ScalarSize))); err != nil {
		t.Fatalf("harness: scalar %v: %v", k, err)
	}
	return s
}

var blsFmts = []blsFmt{
	{
		g: 1, name: "bls12381.G1",
		new: func() blsPoint { return new(bls.G1) },
		inG: func(p blsPoint) bool { return p.(*bls.G1).IsOnG1() },
		libPoint: func(t *rapid.T) blsPoint {
			p := new(bls.G1)
			if rapid.IntRange(0, 3).Draw(t, "hashed") == 0 {
				p.Hash(vlib.Bytes(t, 0, 40, "hmsg"), []byte("C09-DST"))
			} else {
				p.ScalarMult(drawScalar(t), bls.G1Generator())
			}
			return p
		},
		isEqual: func(a, b blsPoint) bool { return a.(*bls.G1).IsEqual(b.(*bls.G1)) },
		used:    usedG1,
		double: func(p blsPoint) []byte {
			q := *p.(*bls.G1)
			q.Double()
			return q.BytesCompressed()
		},
	},
	{
		g: 2, name: "bls12381.G2",
		new: func() blsPoint { return new(bls.G2) },
		inG: func(p blsPoint) bool { return p.(*bls.G2).IsOnG2() },
		libPoint: func(t *rapid.T) blsPoint {
			p := new(bls.G2)
			if rapid.IntRange(0, 3).Draw(t, "hashed") == 0 {
				p.Hash(vlib.Bytes(t, 0, 40, "hmsg"), []byte("C09-DST"))
			} else {
				p.ScalarMult(drawScalar(t), bls.G2Generator())
			}
			return p
		},
		isEqual: func(a, b blsPoint) bool { return a.(*bls.G2).IsEqual(b.(*bls.G2)) },
		used:    usedG2,
		double: func(p blsPoint) []byte {
			q := *p.(*bls.G2)
			q.Double()
			return q.BytesCompressed()
		},
	},
}

var blsKinds = []string{
	"valid", "valid", "bitflip", "bitflip", "flags", "coord>=p", "coord>=p", "oncurve-not-subgroup", "oncurve-not-subgroup",
	"cofactor-component", "twist", "structured-valid", "structured-valid", "infinity-stray", "infinity-stray", "unused-high-bits", "random",
}

// drawE2 draws a field element of the format's coordinate field.
func drawE2(t *rapid.T, g decode.BLSGroup, label string) decode.E2 {
	x := decode.E2{A: drawBelow(t, decode.BLSP, label+".a"), B: new(big.Int)}
	if g == 2 {
		x.B = drawBelow(t, decode.BLSP, label+".b")
	}
	return x
}

// drawCurvePoint solves the curve equation (bAlt = nil: the group's curve) for drawn x until it has a solution.
func drawCurvePoint(t *rapid.T, g decode.BLSGroup, bAlt *decode.E2, label string) decode.WPoint {
	for i := 0; ; i++ {
		x := drawE2(t, g, fmt.Sprintf("%s.x%d", label, i))
		if P, ok := decode.BLSLift(g, x, bAlt); ok {
			if rapid.Bool().Draw(t, label+".neg") {
				P.Y = decode.BLSF.E2Neg(P.Y)
			}
			return P
		}
		if i > 200 {
			t.Fatalf("harness: no liftable x in 200 draws")
		}
	}
}

// rawEncode writes arbitrary integers (possibly >= p) into the ZCash layout; the
// three flag bits are OR-ed into byte 0 afterwards.
func rawEncode(g decode.BLSGroup, flags byte, coords ...*big.Int) []byte {
	out := make([]byte, 48*len(coords))
	for i, c := range coords {
		c.FillBytes(out[48*i : 48*i+48])
	}
	out[0] |= flags
	return out
}

// genBLS draws one input of the given kind; valid reports whether it is an unmodified library encoding.
func genBLS(t *rapid.T, f blsFmt, kind string) (b []byte, valid bool, orig blsPoint) {
	g := f.g
	cs := g.CoordSize()
	comp := rapid.Bool().Draw(t, "compressed")
	libEnc := func() ([]byte, blsPoint) {
		var p blsPoint
		if rapid.IntRange(0, 15).Draw(t, "identity") == 0 {
			p = f.new()
			switch q := p.(type) {
			case *bls.G1:
				q.SetIdentity()
			case *bls.G2:
				q.SetIdentity()
			}
		} else {
			p = f.libPoint(t)
		}
		if comp {
			return p.BytesCompressed(), p
		}
		return p.Bytes(), p
	}
	switch kind {
	case "valid":
		b, orig = libEnc()
		return b, true, orig
	case "bitflip":
		v, _ := libEnc()
		b, _ = flipBit(t, v, []int{0, 0, cs - 1, len(v) - 1}, "flip")
		return b, false, nil
	case "flags":
		v, _ := libEnc()
		b = append([]byte{}, v...)
		b[0] = b[0]&0x1f | byte(rapid.IntRange(0, 7).Draw(t, "flagbits"))<<5
		if rapid.Bool().Draw(t, "swaplen") {
			// keep the payload but present it under the other format's length
			if len(b) == cs {
				b = append(b, make([]byte, cs)...)
				if rapid.Bool().Draw(t, "filly") {
					vlib.FillRandom(t, b[cs:], "ytail")
				}
			} else {
				b = b[:cs]
			}
		}
		return b, eq(b, v), nil
	case "coord>=p":
		// one coordinate limb := value in [p, 2^bits): p+small, (valid x)+p when it fits, or uniform
		P := drawCurvePoint(t, g, nil, "base")
		if rapid.Bool().Draw(t, "insubgroup") {
			// use a library point so that x+p, when it fits, aliases a genuine group element
			lp := f.libPoint(t)
			r := decode.BLSDecode(g, lp.BytesCompressed())
			if r.OK && !r.P.Inf {
				P = r.P
			}
		}
		limbs := []*big.Int{P.X.A}
		if g == 2 {
			limbs = []*big.Int{P.X.B, P.X.A}
		}
		if !comp {
			if g == 2 {
				limbs = append(limbs, P.Y.B, P.Y.A)
			} else {
				limbs = append(limbs, P.Y.A)
			}
		}
		which := rapid.IntRange(0, len(limbs)-1).Draw(t, "limb")
		bits := uint(384)
		if which == 0 {
			bits = 381 // the top three bits of the first limb are flags
		}
		var v *big.Int
		switch rapid.IntRange(0, 2).Draw(t, "how") {
		case 0:
			v = new(big.Int).Add(decode.BLSP, big.NewInt(int64(rapid.IntRange(0, 8).Draw(t, "small"))))
		case 1:
			v = new(big.Int).Add(limbs[which], decode.BLSP)
			if v.BitLen() > int(bits) {
				v = drawRange(t, decode.BLSP, pow2(bits), "over")
			}
		default:
			v = drawRange(t, decode.BLSP, pow2(bits), "over")
		}
		limbs[which] = v
		var flags byte
		if comp {
			flags = 0x80
			if rapid.Bool().Draw(t, "sort") {
				flags |= 0x20
			}
		}
		return rawEncode(g, flags, limbs...), false, nil
	case "oncurve-not-subgroup":
		P := drawCurvePoint(t, g, nil, "pt")
		return decode.BLSEncode(g, P, comp), false, nil
	case "structured-valid":
		// members built by the reference: ±k·G for small k (k = 0: the identity), or h·P for a curve point
		// P with a structured x-coordinate (x in the prime subfield, a zero component, small, near p)
		var P decode.WPoint
		if rapid.IntRange(0, 3).Draw(t, "how") != 0 {
			P = decode.WMul(big.NewInt(int64(rapid.IntRange(0, 48).Draw(t, "k"))), decode.BLSGen(g))
		} else {
			h := decode.BLSH1
			if g == 2 {
				h = decode.BLSH2
			}
			for i := 0; ; i++ {
				x := decode.E2{A: drawStructured(t, decode.BLSP, fmt.Sprintf("xa%d", i)), B: new(big.Int)}
				if g == 2 {
					switch rapid.IntRange(0, 2).Draw(t, fmt.Sprintf("shape%d", i)) {
					case 0: // x in Fp
					case 1: // x purely imaginary
						x = decode.E2{A: new(big.Int), B: x.A}
					default:
						x.B = drawStructured(t, decode.BLSP, fmt.Sprintf("xb%d", i))
					}
				}
				if Q, ok := decode.BLSLift(g, x, nil); ok {
					P = decode.WMul(h, Q)
					break
				}
				if i > 200 {
					t.Fatalf("harness: no structured x lifts")
				}
			}
		}
		if rapid.Bool().Draw(t, "neg") {
			P = decode.WNeg(P)
		}
		return decode.BLSEncode(g, P, comp), false, nil
	case "cofactor-component":
		// r·P has order dividing the cofactor: a pure small-subgroup / cofactor point
		P := decode.WMul(decode.BLSR, drawCurvePoint(t, g, nil, "pt"))
		if rapid.Bool().Draw(t, "plus-subgroup") {
			// T + Q with Q in the group: still outside the r-torsion
			lp := f.libPoint(t)
			r := decode.BLSDecode(g, lp.BytesCompressed())
			if r.OK {
				P = decode.WAdd(P, r.P)
			}
		}
		return decode.BLSEncode(g, P, comp), false, nil
	case "twist":
		// a point of y² = x³ + b' for another b' (invalid-curve point); only meaningful uncompressed
		var alt decode.E2
		switch rapid.IntRange(0, 2).Draw(t, "twistkind") {
		case 0:
			alt = decode.E2{A: big.NewInt(int64(rapid.IntRange(0, 24).Draw(t, "b'"))), B: big.NewInt(0)}
		case 1:
			alt = drawE2(t, g, "b'")
		default:
			// the other group's constant: G1's b on G2's field and vice versa (x, y in Fp for G1)
			alt = decode.E2{A: big.NewInt(4), B: big.NewInt(0)}
			if g == 1 {
				alt = decode.E2{A: big.NewInt(8), B: big.NewInt(0)}
			}
		}
		P := drawCurvePoint(t, g, &alt, "tw")
		return decode.BLSEncode(g, P, false), false, nil
	case "infinity-stray":
		n := cs
		var flags byte = 0x40
		if comp {
			flags |= 0x80
		} else {
			n = 2 * cs
		}
		b = make([]byte, n)
		switch rapid.IntRange(0, 5).Draw(t, "stray") {
		case 0: // exact infinity (a valid encoding, produced here not by the library)
		case 1: // sort flag on infinity
			flags |= 0x20
		case 2: // low bits of byte 0
			b[0] = byte(rapid.IntRange(1, 31).Draw(t, "lowbits"))
		case 3: // one payload bit
			i := rapid.IntRange(8, 8*n-1).Draw(t, "paybit")
			b[i/8] |= 1 << (7 - i%8)
		case 4: // random payload
			vlib.FillRandom(t, b, "pay")
			b[0] &= 0x1f
		case 5: // payload = a valid point
			v, _ := libEnc()
			if len(v) == n {
				copy(b, v)
				b[0] &= 0x1f
			}
		}
		b[0] |= flags
		return b, false, nil
	case "unused-high-bits":
		// the non-flag bits above bit 380 of a limb: for limb 0 they do not exist (flags), for the
		// other limbs bits 381..383 exist and make the value >= 2^381 > p
		v, _ := libEnc()
		b = append([]byte{}, v...)
		nl := len(b) / 48
		l := rapid.IntRange(0, nl-1).Draw(t, "limb")
		b[48*l] |= byte(rapid.IntRange(1, 7).Draw(t, "hb")) << 5
		return b, eq(b, v), nil
	default: // random
		n := cs
		if !comp {
			n = 2 * cs
		}
		b = make([]byte, n)
		vlib.FillRandom(t, b, "rnd")
		if rapid.Bool().Draw(t, "fixflags") {
			b[0] &= 0x1f
			if comp {
				b[0] |= 0x80
			}
			if rapid.Bool().Draw(t, "reduce") {
				b[0] &= 0x8f // x < 2^380 < p
			}
		}
		return b, false, nil
	}
}

// checkBLS applies the oracle to one byte string.
func checkBLS(t vlib.TB, f blsFmt, b []byte, kind string, valid bool, orig blsPoint) {
	sub := f.name + ".SetBytes"
	vlib.Eval(sub)
	usedBLS(t, f, b)
	p := f.new()
	var err error
	if pn, st := vlib.Catch(func() { err = p.SetBytes(b) }); pn != nil {
		// a panic is property C10's subject; it is neither an acceptance nor a rejection here
		vlib.Class(sub, "panic(counted; property C10): "+vlib.PanicClass(pn))
		vlib.Sample(sub, "panic", fmt.Sprintf("%s kind=%s input=%s panic=%v", sub, kind, vlib.Hex(b), pn))
		_ = st
		return
	}
	accepted := err == nil
	if cs := f.g.CoordSize(); len(b) == 2*cs && b[0]&0x80 != 0 {
		// Compression flag on a buffer of the uncompressed length: G1/G2.SetBytes read this as a compressed
		// encoding followed by trailing bytes, which they tolerate by documented (unit-tested: TestG1Serial/badLength)
		// behaviour. Trailing bytes are outside C09's exact-length quantifier, so the verdict on the whole buffer is
		// only counted; the oracle is applied to the 48/96-byte prefix the decoder actually consumed.
		acc := "rejected"
		if accepted {
			acc = "accepted"
		}
		vlib.Class(sub, "compressed-flag+trailing-bytes (outside the exact-length domain; counted only): "+acc)
		b = b[:cs]
		kind += "/prefix"
		valid = false
	}
	ref := decode.BLSDecode(f.g, b)
	outcome(sub, kind, valid, accepted, ref.OK, b)
	vlib.Class(sub, "ref-stage="+ref.Stage)
	sample(sub, kind, accepted, b, "ref="+ref.Stage)
	if valid && !accepted {
		vlib.Report(t, "C09/completeness/"+f.name+".SetBytes/rejects-library-encoding", fmt.Sprintf("input=%x err=%v", b, err))
		return
	}
	if mustAccept(t, f.name+".SetBytes", sub, kind, ref.OK, accepted, b, ref.Stage) {
		return
	}
	if !accepted {
		return
	}
	if !ref.OK {
		vlib.Report(t, "C09/soundness/"+f.name+".SetBytes/"+ref.Stage, fmt.Sprintf("kind=%s input=%x accepted by circl; reference rejects at stage %s", kind, b, ref.Stage))
		return
	}
	comp := len(b) == f.g.CoordSize()
	same, other := p.Bytes(), p.BytesCompressed()
	if comp {
		same, other = other, same
	}
	if !eq(same, b) {
		vlib.Report(t, "C09/soundness/"+f.name+".SetBytes/reencode-differs", fmt.Sprintf("kind=%s input=%x re-serialised=%x", kind, b, same))
		return
	}
	if want := decode.BLSEncode(f.g, ref.P, !comp); !eq(other, want) {
		vlib.Report(t, "C09/soundness/"+f.name+".SetBytes/decoded-value-differs", fmt.Sprintf("kind=%s input=%x other-format encoding %x, reference %x", kind, b, other, want))
		return
	}
	if !f.inG(p) {
		vlib.Report(t, "C09/soundness/"+f.name+".SetBytes/accepted-not-in-group", fmt.Sprintf("kind=%s input=%x", kind, b))
		return
	}
	if p.IsIdentity() != ref.P.Inf {
		vlib.Report(t, "C09/soundness/"+f.name+".SetBytes/decoded-value-differs", fmt.Sprintf("kind=%s input=%x IsIdentity=%v", kind, b, p.IsIdentity()))
		return
	}
	if valid && orig != nil && !(f.isEqual(p, orig) && f.isEqual(orig, p)) {
		vlib.Report(t, "C09/completeness/"+f.name+".SetBytes/not-equal-after-roundtrip", fmt.Sprintf("input=%x", b))
		return
	}
	if refConstructed(kind) {
		// the library now holds the value: what it serialises in the other format must decode again (the
		// compressed form exercises the square root and the sign rule) and compare equal
		q := f.new()
		if err := q.SetBytes(other); err != nil || !f.isEqual(p, q) {
			vlib.Report(t, "C09/completeness/"+f.name+".SetBytes/rejects-library-encoding", fmt.Sprintf("kind=%s input=%x: the other-format serialisation %x of the decoded value: err=%v", kind, b, other, err))
			return
		}
	}
}

func TestC09BLSPoints(t *testing.T) {
	defer vlib.Done()
	selftest(t)
	for _, f := range blsFmts {
		f := f
		t.Run(f.name, func(t *testing.T) {
			vlib.Check(t, vlib.N(700, 3000), func(t *rapid.T) {
				kind := rapid.SampledFrom(blsKinds).Draw(t, "kind")
				b, valid, orig := genBLS(t, f, kind)
				checkBLS(t, f, b, kind, valid, orig)
			})
		})
	}
}

// ---------------------------------------------------------------------------
// sign/bls public keys (UnmarshalBinary + Validate) and signatures (via Verify)

// usedBLSKey decodes b into a fresh PublicKey and into one that already holds another key (or the
// remains of a rejected decode) and compares verdict, Validate, MarshalBinary and Equal.
func usedBLSKey[K sbls.KeyGroup](t vlib.TB, sub string, b []byte) {
	var freshVal *sbls.PublicKey[K]
	look := func(pk *sbls.PublicKey[K]) recvObs {
		return observe(func(o *recvObs) {
			o.accepted = pk.UnmarshalBinary(b) == nil
			if !o.accepted {
				return
			}
			out, _ := pk.MarshalBinary()
			o.views = [][]byte{out}
			o.flags = []bool{pk.Validate()}
			if freshVal != nil {
				o.flags = append(o.flags, pk.Equal(freshVal), freshVal.Equal(pk))
			} else {
				o.flags = append(o.flags, true, true)
			}
		})
	}
	fp := new(sbls.PublicKey[K])
	fresh := look(fp)
	if fresh.accepted && fresh.pan == "" {
		freshVal = fp
	}
	states := []string{"other-key", "after-rejected-decode", "same-input-twice"}
	st := recvState(b, len(states))
	up := new(sbls.PublicKey[K])
	switch st {
	case 0:
		ikm := make([]byte, 32)
		vlib.ExpandInto(ikm, vlib.Hash64(b))
		sk, err := sbls.KeyGen[K](ikm, nil, nil)
		if err != nil {
			return
		}
		*up = *sk.PublicKey()
	case 1:
		_ = up.UnmarshalBinary(garbage(96))
	case 2:
		_ = up.UnmarshalBinary(b)
	}
	var before, after [][]byte
	vlib.Catch(func() { o, _ := up.MarshalBinary(); before = [][]byte{o} })
	used := look(up)
	if !used.accepted {
		vlib.Catch(func() { o, _ := up.MarshalBinary(); after = [][]byte{o} })
	}
	judgeUsed(t, sub+".UnmarshalBinary", sub, states[st], b, fresh, used, before, after)
}

func checkBLSKey[K sbls.KeyGroup](t vlib.TB, f blsFmt, b []byte, kind string, valid bool) {
	sub := "bls.PublicKey[" + f.name[9:] + "]"
	vlib.Eval(sub)
	usedBLSKey[K](t, sub, b)
	pk := new(sbls.PublicKey[K])
	var err error
	var okv bool
	if pn, _ := vlib.Catch(func() {
		err = pk.UnmarshalBinary(b)
		if err == nil {
			okv = pk.Validate()
		}
	}); pn != nil {
		vlib.Class(sub, "panic(counted; property C10): "+vlib.PanicClass(pn))
		return
	}
	accepted := err == nil
	ref := decode.BLSDecode(f.g, b)
	outcome(sub, kind, valid, accepted && okv, ref.OK && !ref.P.Inf, b)
	sample(sub, kind, accepted && okv, b, "ref="+ref.Stage)
	if valid && !(accepted && okv) {
		vlib.Report(t, "C09/completeness/"+sub+"/rejects-library-encoding", fmt.Sprintf("input=%x err=%v validate=%v", b, err, okv))
		return
	}
	if mustAccept(t, sub, sub, kind, ref.OK && !ref.P.Inf, accepted && okv, b, ref.Stage) {
		return
	}
	if !accepted {
		return
	}
	if !ref.OK {
		vlib.Report(t, "C09/soundness/"+sub+".UnmarshalBinary/"+ref.Stage, fmt.Sprintf("kind=%s input=%x", kind, b))
		return
	}
	if okv && ref.P.Inf {
		vlib.Report(t, "C09/soundness/"+sub+".Validate/identity", fmt.Sprintf("kind=%s input=%x: the identity validates as a public key", kind, b))
		return
	}
	if !okv && !ref.P.Inf {
		vlib.Class(sub, "unmarshal-ok/validate-false/ref-accepts(counted only)")
	}
	out, _ := pk.MarshalBinary()
	if want := decode.BLSEncode(f.g, ref.P, true); !eq(out, want) {
		vlib.Report(t, "C09/soundness/"+sub+".UnmarshalBinary/reencode-differs", fmt.Sprintf("kind=%s input=%x MarshalBinary=%x reference(compressed)=%x", kind, b, out, want))
		return
	}
	if len(b) == f.g.CoordSize() && !eq(out, b) {
		vlib.Report(t, "C09/soundness/"+sub+".UnmarshalBinary/reencode-differs", fmt.Sprintf("kind=%s input=%x MarshalBinary=%x", kind, b, out))
		return
	}
}

func genBLSKey[K sbls.KeyGroup](t *rapid.T, f blsFmt, kind string) ([]byte, bool) {
	if kind == "valid" || ((kind == "bitflip" || kind == "flags") && rapid.Bool().Draw(t, "from-keygen")) {
		ikm := vlib.EdgeBytes(t, 32, "ikm")
		sk, err := sbls.KeyGen[K](ikm, nil, nil)
		if err != nil {
			t.Fatalf("harness: KeyGen: %v", err)
		}
		v, _ := sk.PublicKey().MarshalBinary()
		switch kind {
		case "valid":
			return v, true
		case "bitflip":
			b, _ := flipBit(t, v, []int{0, 0, len(v) - 1}, "flip")
			return b, false
		default:
			b := append([]byte{}, v...)
			b[0] = b[0]&0x1f | byte(rapid.IntRange(0, 7).Draw(t, "flagbits"))<<5
			return b, eq(b, v)
		}
	}
	b, valid, _ := genBLS(t, f, kind)
	// a library point encoding that is not a key encoding (uncompressed, identity) is not "library output" for keys
	_ = valid
	return b, false
}

func TestC09BLSKeys(t *testing.T) {
	defer vlib.Done()
	selftest(t)
	t.Run("G1", func(t *testing.T) {
		vlib.Check(t, vlib.N(350, 1200), func(t *rapid.T) {
			kind := rapid.SampledFrom(blsKinds).Draw(t, "kind")
			b, valid := genBLSKey[sbls.G1](t, blsFmts[0], kind)
			checkBLSKey[sbls.G1](t, blsFmts[0], b, kind, valid)
		})
	})
	t.Run("G2", func(t *testing.T) {
		vlib.Check(t, vlib.N(350, 1200), func(t *rapid.T) {
			kind := rapid.SampledFrom(blsKinds).Draw(t, "kind")
			b, valid := genBLSKey[sbls.G2](t, blsFmts[1], kind)
			checkBLSKey[sbls.G2](t, blsFmts[1], b, kind, valid)
		})
	})
}

// signature points: an altered signature verifies only if it is another
// accepted format of the very same group element.
func checkBLSSig[K sbls.KeyGroup](t *rapid.T, sigFmt blsFmt, name string) {
	sub := "bls.Verify[" + name + "]/signature"
	ikm := vlib.EdgeBytes(t, 32, "ikm")
	sk, err := sbls.KeyGen[K](ikm, nil, nil)
	if err != nil {
		t.Fatalf("harness: KeyGen: %v", err)
	}
	pk := sk.PublicKey()
	msg := vlib.Msg(t, "msg")
	sig := sbls.Sign(sk, msg)
	vlib.Eval(sub)
	if !sbls.Verify(pk, msg, sig) {
		vlib.Report(t, "C09/completeness/"+sub+"/honest-signature-rejected", fmt.Sprintf("ikm=%x msg=%x sig=%x", ikm, msg, sig))
		return
	}
	refSig := decode.BLSDecode(sigFmt.g, sig)
	if !refSig.OK || !eq(decode.BLSEncode(sigFmt.g, refSig.P, true), sig) {
		vlib.Report(t, "C09/soundness/"+sub+"/library-signature-not-canonical", fmt.Sprintf("sig=%x ref=%s", sig, refSig.Stage))
		return
	}
	kind := rapid.SampledFrom([]string{"bitflip", "bitflip", "flags", "uncompressed", "x+p", "negated", "plus-cofactor-point", "infinity", "other-sig", "hostile", "hostile"}).Draw(t, "alt")
	var alt []byte
	cs := sigFmt.g.CoordSize()
	switch kind {
	case "bitflip":
		alt, _ = flipBit(t, sig, []int{0, 0, len(sig) - 1}, "flip")
	case "flags":
		alt = append([]byte{}, sig...)
		alt[0] = alt[0]&0x1f | byte(rapid.IntRange(0, 7).Draw(t, "flagbits"))<<5
	case "uncompressed":
		alt = decode.BLSEncode(sigFmt.g, refSig.P, false)
	case "x+p":
		limbs := []*big.Int{refSig.P.X.A}
		if sigFmt.g == 2 {
			limbs = []*big.Int{refSig.P.X.B, refSig.P.X.A}
		}
		w := rapid.IntRange(0, len(limbs)-1).Draw(t, "limb")
		limbs[w] = new(big.Int).Add(limbs[w], decode.BLSP)
		if (w == 0 && limbs[w].BitLen() > 381) || limbs[w].BitLen() > 384 {
			kind = "x+p(does not fit)"
			limbs[w] = new(big.Int).Set(decode.BLSP)
		}
		alt = rawEncode(sigFmt.g, sig[0]&0xe0, limbs...)
	case "negated":
		alt = decode.BLSEncode(sigFmt.g, decode.WNeg(refSig.P), true)
	case "plus-cofactor-point":
		T := decode.WMul(decode.BLSR, drawCurvePoint(t, sigFmt.g, nil, "pt"))
		alt = decode.BLSEncode(sigFmt.g, decode.WAdd(refSig.P, T), rapid.Bool().Draw(t, "comp"))
	case "infinity":
		alt = make([]byte, cs)
		alt[0] = 0xc0
	case "other-sig":
		alt = sbls.Sign(sk, append(append([]byte{}, msg...), 1))
	case "hostile":
		alt, _, _ = genBLS(t, sigFmt, rapid.SampledFrom(blsKinds).Draw(t, "hk"))
	}
	vlib.Class(sub, "alt="+kind)
	if eq(alt, sig) {
		vlib.Class(sub, "alteration-was-identity")
		return
	}
	var ok bool
	if pn, _ := vlib.Catch(func() { ok = sbls.Verify(pk, msg, alt) }); pn != nil {
		vlib.Class(sub, "panic(counted; property C10): "+vlib.PanicClass(pn))
		return
	}
	acc := "rejected"
	if ok {
		acc = "accepted"
	}
	vlib.NonTrivial(sub, "adversarial:"+acc, ikm, msg, alt)
	vlib.Class(sub, "adversarial:"+kind+":"+acc)
	vlib.Sample(sub, kind+":"+acc, fmt.Sprintf("%s ikm=%x msg=%s alt=%s sig'=%s → %s", sub, ikm, vlib.Hex(msg), kind, vlib.Hex(alt), acc))
	if !ok {
		return
	}
	ref := decode.BLSDecode(sigFmt.g, alt)
	if !ref.OK {
		vlib.Report(t, "C09/soundness/"+sub+"/"+ref.Stage, fmt.Sprintf("ikm=%x msg=%x alt=%s sig'=%x verifies; reference rejects the signature point at stage %s", ikm, msg, kind, alt, ref.Stage))
		return
	}
	if !decode.WEqual(ref.P, refSig.P) {
		// A different, correctly decoded group element verifies: a defect of the verification equation /
		// pairing (properties C04, C13), not of the decoder. Counted and sampled, never reported under C09.
		vlib.Class(sub, "DIFFERENT-POINT-VERIFIES(counted only; not a decoding defect): "+kind)
		vlib.Sample(sub, "different-point-verifies", fmt.Sprintf("%s ikm=%x msg=%s sig'=%s verifies although it decodes to another group element", sub, ikm, vlib.Hex(msg), vlib.Hex(alt)))
		return
	}
	if len(alt) == len(sig) {
		vlib.Report(t, "C09/soundness/"+sub+"/second-encoding-verifies", fmt.Sprintf("ikm=%x msg=%x alt=%s sig=%x sig'=%x both verify and decode to the same point", ikm, msg, kind, sig, alt))
		return
	}
	vlib.Class(sub, "uncompressed-form-of-the-same-point-verifies(same format re-serialisation holds)")
}

func TestC09BLSSignatures(t *testing.T) {
	defer vlib.Done()
	selftest(t)
	t.Run("KeyG1SigG2", func(t *testing.T) {
		vlib.Check(t, vlib.N(120, 400), func(t *rapid.T) { checkBLSSig[sbls.G1](t, blsFmts[1], "KeyG1SigG2") })
	})
	t.Run("KeyG2SigG1", func(t *testing.T) {
		vlib.Check(t, vlib.N(120, 400), func(t *rapid.T) { checkBLSSig[sbls.G2](t, blsFmts[0], "KeyG2SigG1") })
	})
}

// ---------------------------------------------------------------------------
// sign/bls functions that take signature bytes: Aggregate and VerifyAggregate are parsers in the
// C09 sense. Aggregate(sigs) returns either an error, or the canonical compressed encoding of the
// sum of the group elements that the inputs encode — which requires every input to be a valid
// encoding of a member of the signature group.

var aggLens = []int{1, 1, 1, 1, 1, 1, 2, 2, 3, 3, 4, 5, 8}

func checkBLSAggregate[K sbls.KeyGroup](t *rapid.T, sigFmt blsFmt, name string) {
	sub := "bls.Aggregate[" + name + "]"
	var kg K
	n := rapid.SampledFrom(aggLens).Draw(t, "n")
	pos := rapid.IntRange(0, n-1).Draw(t, "pos")
	kind := rapid.SampledFrom(append([]string{"honest", "honest", "honest-uncompressed", "sig-bitflip", "sig-bitflip", "sig-flags", "sig-x+p", "sig+cofactor-point"}, blsKinds...)).Draw(t, "kind")
	vlib.Eval(sub)
	sks := make([]*sbls.PrivateKey[K], n)
	pubs := make([]*sbls.PublicKey[K], n)
	msgs := make([][]byte, n)
	sigs := make([]sbls.Signature, n)
	base := vlib.Bytes(t, 0, 16, "msg")
	for i := 0; i < n; i++ {
		ikm := make([]byte, 32)
		vlib.FillRandom(t, ikm, fmt.Sprintf("ikm%d", i))
		sk, err := sbls.KeyGen[K](ikm, nil, nil)
		if err != nil {
			t.Fatalf("harness: KeyGen: %v", err)
		}
		sks[i], pubs[i] = sk, sk.PublicKey()
		msgs[i] = append(append([]byte{}, base...), byte(i))
		sigs[i] = sbls.Sign(sk, msgs[i])
	}
	honest := append([]byte{}, sigs[pos]...)
	refH := decode.BLSDecode(sigFmt.g, honest)
	if !refH.OK {
		vlib.Report(t, "C09/soundness/"+sub+"/library-signature-not-canonical", fmt.Sprintf("sig=%x ref=%s", honest, refH.Stage))
		return
	}
	var alt []byte
	switch kind {
	case "honest":
		alt = honest
	case "honest-uncompressed":
		alt = decode.BLSEncode(sigFmt.g, refH.P, false)
	case "sig-bitflip":
		alt, _ = flipBit(t, honest, []int{0, 0, len(honest) - 1}, "flip")
	case "sig-flags":
		alt = append([]byte{}, honest...)
		alt[0] = alt[0]&0x1f | byte(rapid.IntRange(0, 7).Draw(t, "flagbits"))<<5
	case "sig-x+p":
		limbs := []*big.Int{refH.P.X.A}
		if sigFmt.g == 2 {
			limbs = []*big.Int{refH.P.X.B, refH.P.X.A}
		}
		w := rapid.IntRange(0, len(limbs)-1).Draw(t, "limb")
		limbs[w] = new(big.Int).Add(limbs[w], decode.BLSP)
		if (w == 0 && limbs[w].BitLen() > 381) || limbs[w].BitLen() > 384 {
			limbs[w] = new(big.Int).Add(decode.BLSP, big.NewInt(int64(rapid.IntRange(0, 9).Draw(t, "small"))))
		}
		alt = rawEncode(sigFmt.g, honest[0]&0xe0, limbs...)
	case "sig+cofactor-point":
		T := decode.WMul(decode.BLSR, drawCurvePoint(t, sigFmt.g, nil, "pt"))
		alt = decode.BLSEncode(sigFmt.g, decode.WAdd(refH.P, T), rapid.Bool().Draw(t, "comp"))
	default:
		alt, _, _ = genBLS(t, sigFmt, kind)
	}
	sigs[pos] = alt
	vlib.Class(sub, fmt.Sprintf("n=%d", n))
	vlib.Class(sub, "kind="+kind)
	// reference: every input must decode (exact length for its flag, range, curve, subgroup); expected = compressed sum
	allOK, badStage, badIdx := true, "ok", -1
	sum := decode.WPoint{Inf: true}
	for i, s := range sigs {
		r := decode.BLSDecode(sigFmt.g, s)
		if !r.OK {
			if allOK {
				allOK, badStage, badIdx = false, r.Stage, i
			}
			continue
		}
		sum = decode.WAdd(sum, r.P)
	}
	in := make([]sbls.Signature, n)
	for i := range sigs {
		in[i] = append([]byte{}, sigs[i]...)
	}
	var out sbls.Signature
	var err error
	if pn, _ := vlib.Catch(func() { out, err = sbls.Aggregate(kg, in) }); pn != nil {
		vlib.Class(sub, "panic(counted; property C10): "+vlib.PanicClass(pn))
		return
	}
	accepted := err == nil
	acc := "rejected"
	if accepted {
		acc = "accepted"
	}
	vlib.Class(sub, "ref-stage="+badStage+":"+acc)
	if !eq(alt, honest) {
		vlib.NonTrivial(sub, "adversarial:"+acc, []byte(fmt.Sprint(n, pos)), alt, honest)
		vlib.Class(sub, fmt.Sprintf("adversarial:%s:%s", kind, acc))
	}
	vlib.Sample(sub, kind+":"+acc, fmt.Sprintf("%s n=%d pos=%d kind=%s sig'=%s → %s (reference: %s)", sub, n, pos, kind, vlib.Hex(alt), acc, badStage))
	for i := range in {
		if !eq(in[i], sigs[i]) {
			vlib.Class(sub, "Aggregate modified its input slice (counted only; property C11)")
		}
	}
	if !accepted {
		if allOK && (kind == "honest" || kind == "honest-uncompressed" || kind == "valid" || refConstructed(kind)) {
			vlib.Report(t, "C09/completeness/"+sub+"/rejects-valid-encoding", fmt.Sprintf("n=%d pos=%d kind=%s sig'=%x: every input is a canonical encoding of a member, yet Aggregate fails: %v", n, pos, kind, alt, err))
		} else if allOK {
			vlib.Class(sub, "ref-accepts/circl-rejects(counted only)")
		}
		return
	}
	if !allOK {
		vlib.Report(t, "C09/soundness/"+sub+"/"+badStage, fmt.Sprintf("n=%d pos=%d kind=%s: input %d = %x is not an encoding of a member (reference: %s) but Aggregate succeeds with %x", n, pos, kind, badIdx, sigs[badIdx], badStage, out))
		return
	}
	want := decode.BLSEncode(sigFmt.g, sum, true)
	if !eq(out, want) {
		vlib.Report(t, "C09/soundness/"+sub+"/output-not-canonical-aggregate", fmt.Sprintf("n=%d pos=%d kind=%s sig'=%x: Aggregate returns %x, the compressed sum of the decoded inputs is %x", n, pos, kind, alt, out, want))
		return
	}
	// the output is itself an encoding the library serialised: it must decode again, into the subgroup
	q := sigFmt.new()
	if e := q.SetBytes(out); e != nil || !sigFmt.inG(q) {
		vlib.Report(t, "C09/completeness/"+sub+"/output-does-not-decode", fmt.Sprintf("n=%d kind=%s out=%x err=%v", n, kind, out, e))
		return
	}
	// VerifyAggregate as a parser of the aggregate: honest aggregate verifies, altered encodings verify only if
	// the reference accepts them
	if !sum.Inf && decode.WEqual(decode.BLSDecode(sigFmt.g, alt).P, refH.P) {
		var ok bool
		if pn, _ := vlib.Catch(func() { ok = sbls.VerifyAggregate(pubs, msgs, out) }); pn != nil {
			vlib.Class(sub, "panic(counted; property C10): "+vlib.PanicClass(pn))
			return
		}
		if !ok {
			vlib.Report(t, "C09/completeness/bls.VerifyAggregate["+name+"]/honest-aggregate-rejected", fmt.Sprintf("n=%d agg=%x", n, out))
			return
		}
		vsub := "bls.VerifyAggregate[" + name + "]/signature"
		vlib.Eval(vsub)
		akind := rapid.SampledFrom([]string{"bitflip", "bitflip", "flags", "uncompressed", "x+p", "infinity-stray", "hostile"}).Draw(t, "agg-alt")
		var a2 []byte
		switch akind {
		case "bitflip":
			a2, _ = flipBit(t, out, []int{0, 0, len(out) - 1}, "aflip")
		case "flags":
			a2 = append([]byte{}, out...)
			a2[0] = a2[0]&0x1f | byte(rapid.IntRange(0, 7).Draw(t, "aflagbits"))<<5
		case "uncompressed":
			a2 = decode.BLSEncode(sigFmt.g, sum, false)
		case "x+p":
			limbs := []*big.Int{sum.X.A}
			if sigFmt.g == 2 {
				limbs = []*big.Int{sum.X.B, sum.X.A}
			}
			w := rapid.IntRange(0, len(limbs)-1).Draw(t, "alimb")
			limbs[w] = new(big.Int).Add(limbs[w], decode.BLSP)
			if (w == 0 && limbs[w].BitLen() > 381) || limbs[w].BitLen() > 384 {
				limbs[w] = new(big.Int).Set(decode.BLSP)
			}
			a2 = rawEncode(sigFmt.g, out[0]&0xe0, limbs...)
		case "infinity-stray":
			a2, _, _ = genBLS(t, sigFmt, "infinity-stray")
		default:
			a2, _, _ = genBLS(t, sigFmt, rapid.SampledFrom(blsKinds).Draw(t, "hk"))
		}
		if eq(a2, out) {
			return
		}
		var ok2 bool
		if pn, _ := vlib.Catch(func() { ok2 = sbls.VerifyAggregate(pubs, msgs, a2) }); pn != nil {
			vlib.Class(vsub, "panic(counted; property C10): "+vlib.PanicClass(pn))
			return
		}
		a := "rejected"
		if ok2 {
			a = "accepted"
		}
		vlib.NonTrivial(vsub, "adversarial:"+a, out, a2)
		vlib.Class(vsub, "adversarial:"+akind+":"+a)
		if ok2 {
			r2 := decode.BLSDecode(sigFmt.g, a2)
			if !r2.OK {
				vlib.Report(t, "C09/soundness/"+vsub+"/"+r2.Stage, fmt.Sprintf("n=%d agg'=%x verifies; the reference rejects the aggregate point (%s)", n, a2, r2.Stage))
				return
			}
			if !decode.WEqual(r2.P, sum) {
				vlib.Class(vsub, "DIFFERENT-POINT-VERIFIES(counted only; not a decoding defect): "+akind)
			} else if len(a2) == len(out) {
				vlib.Report(t, "C09/soundness/"+vsub+"/second-encoding-verifies", fmt.Sprintf("n=%d agg=%x agg'=%x both verify and decode to the same point", n, out, a2))
			}
		}
	}
}

func TestC09BLSAggregate(t *testing.T) {
	defer vlib.Done()
	selftest(t)
	t.Run("KeyG1SigG2", func(t *testing.T) {
		vlib.Check(t, vlib.N(150, 600), func(t *rapid.T) { checkBLSAggregate[sbls.G1](t, blsFmts[1], "KeyG1SigG2") })
	})
	t.Run("KeyG2SigG1", func(t *testing.T) {
		vlib.Check(t, vlib.N(150, 600), func(t *rapid.T) { checkBLSAggregate[sbls.G2](t, blsFmts[0], "KeyG2SigG1") })
	})
}
