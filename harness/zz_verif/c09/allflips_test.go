//go:build verif

package c09

import (
	"fmt"
	"math/big"
	"testing"

	bls "github.com/cloudflare/circl/ecc/bls12381"
	"github.com/cloudflare/circl/ecc/fourq"
	"github.com/cloudflare/circl/ecc/goldilocks"
	"github.com/cloudflare/circl/group"
	"github.com/cloudflare/circl/zz_verif/ref/decode"
	"github.com/cloudflare/circl/zz_verif/vlib"
)

// TestC09AllBitFlips: for one library-produced encoding per format (a function of
// VERIF_SEED), every single-bit flip is decoded and judged by the same oracle as the
// random search ("each valid encoding with every single bit flipped" of the quantifier).
// The index space is split over the shards.
func TestC09AllBitFlips(t *testing.T) {
	defer vlib.Done()
	selftest(t)
	seed := uint64(vlib.Seed)*1009 + 17
	rnd := func(n int, salt uint64) []byte {
		b := make([]byte, n)
		vlib.ExpandInto(b, seed+salt)
		return b
	}
	flips := func(name string, v []byte, f func(b []byte)) {
		if vlib.Shard == 0 {
			vlib.Exhaustive("C09 all single-bit flips of one library encoding: "+name, int64(8*len(v)), "split over the shards by bit index")
		}
		for i := 0; i < 8*len(v); i++ {
			if i%vlib.NShards != vlib.Shard {
				continue
			}
			b := append([]byte{}, v...)
			b[i/8] ^= 1 << (i % 8)
			f(b)
			if t.Failed() {
				return
			}
		}
	}
	// BLS12-381
	k := new(big.Int).SetBytes(rnd(40, 1))
	k.Mod(k, decode.BLSR)
	sc := new(bls.Scalar)
	if err := sc.UnmarshalBinary(k.FillBytes(make([]byte, bls.ScalarSize))); err != nil {
		t.Fatalf("harness: %v", err)
	}
	g1, g2 := new(bls.G1), new(bls.G2)
	g1.ScalarMult(sc, bls.G1Generator())
	g2.ScalarMult(sc, bls.G2Generator())
	for _, c := range []struct {
		f   blsFmt
		enc []byte
		n   string
	}{
		{blsFmts[0], g1.BytesCompressed(), "G1 compressed"}, {blsFmts[0], g1.Bytes(), "G1 uncompressed"},
		{blsFmts[1], g2.BytesCompressed(), "G2 compressed"}, {blsFmts[1], g2.Bytes(), "G2 uncompressed"},
	} {
		c := c
		checkBLS(t, c.f, c.enc, "valid", true, nil)
		flips("bls12381 "+c.n, c.enc, func(b []byte) { checkBLS(t, c.f, b, "allflips", false, nil) })
	}
	// Goldilocks
	var gk goldilocks.Scalar
	copy(gk[:], rnd(goldilocks.ScalarSize, 2))
	gk[goldilocks.ScalarSize-1] &= 0x3f
	gp := goldilocks.Curve{}.ScalarBaseMult(&gk)
	ge, _ := gp.MarshalBinary()
	checkGoldFromBytes(t, ge, "valid", true, gp)
	flips("goldilocks", ge, func(b []byte) { checkGoldFromBytes(t, b, "allflips", false, nil) })
	// FourQ
	var fk, fe [32]byte
	copy(fk[:], rnd(32, 3))
	var fp fourq.Point
	fp.ScalarBaseMult(&fk)
	fp.Marshal(&fe)
	checkFourQ(t, fe[:], "valid", true, &fp)
	flips("fourq", fe[:], func(b []byte) { checkFourQ(t, b, "allflips", false, nil) })
	// NIST groups and ristretto255
	for _, f := range secFmts {
		f := f
		e := f.g.RandomElement(vlib.NewReader(seed + 4))
		um := func(in []byte) (func(bool) ([]byte, error), group.Element, error) {
			x := f.g.NewElement()
			err := x.UnmarshalBinary(in)
			return func(c bool) ([]byte, error) {
				if c {
					return x.MarshalBinaryCompress()
				}
				return x.MarshalBinary()
			}, x, err
		}
		for _, comp := range []bool{true, false} {
			var enc []byte
			if comp {
				enc, _ = e.MarshalBinaryCompress()
			} else {
				enc, _ = e.MarshalBinary()
			}
			name := f.name + ".Element.UnmarshalBinary"
			checkSEC(t, f, name, name, enc, "valid", true, e, um, false)
			flips(fmt.Sprintf("%s compressed=%v", f.name, comp), enc, func(b []byte) { checkSEC(t, f, name, name, b, "allflips", false, nil, um, false) })
		}
	}
	re := group.Ristretto255.RandomElement(vlib.NewReader(seed + 5))
	renc, _ := re.MarshalBinary()
	rum := func(in []byte) (func() ([]byte, error), group.Element, error) {
		x := group.Ristretto255.NewElement()
		err := x.UnmarshalBinary(in)
		return x.MarshalBinary, x, err
	}
	const rn = "group.Ristretto255.Element.UnmarshalBinary"
	checkR255(t, rn, rn, renc, "valid", true, re, rum)
	flips("ristretto255", renc, func(b []byte) { checkR255(t, rn, rn, b, "allflips", false, nil, rum) })
}
