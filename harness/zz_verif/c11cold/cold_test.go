//go:build verif

// C11, cold start: the FIRST use of a package in a process happens in many
// goroutines at once, so package-level lazily initialised data (scheme
// tables, precomputed tables, caches) is exercised at the only moment it can
// race. Each scenario needs a fresh process: the driver runs this binary once
// per shard and the shard index selects the scenario. The package deliberately
// does not import kem/schemes or sign/schemes, whose package initialisation
// would touch the packages under test sequentially first.
package c11cold

import (
	"fmt"
	"sync"
	"testing"

	"github.com/cloudflare/circl/dh/x25519"
	"github.com/cloudflare/circl/dh/x448"
	"github.com/cloudflare/circl/ecc/bls12381"
	"github.com/cloudflare/circl/ecc/fourq"
	"github.com/cloudflare/circl/ecc/goldilocks"
	"github.com/cloudflare/circl/ecc/p384"
	"github.com/cloudflare/circl/expander"
	"github.com/cloudflare/circl/group"
	"github.com/cloudflare/circl/hpke"
	"github.com/cloudflare/circl/kem/hybrid"
	"github.com/cloudflare/circl/kem/kyber/kyber768"
	"github.com/cloudflare/circl/kem/mlkem/mlkem768"
	"github.com/cloudflare/circl/kem/xwing"
	"github.com/cloudflare/circl/oprf"
	"github.com/cloudflare/circl/sign/bls"
	"github.com/cloudflare/circl/sign/ed25519"
	"github.com/cloudflare/circl/sign/ed448"
	"github.com/cloudflare/circl/sign/eddilithium2"
	"github.com/cloudflare/circl/sign/mldsa/mldsa65"
	"github.com/cloudflare/circl/xof"
	"github.com/cloudflare/circl/zz_verif/vlib"
)

func sd(n int, tag uint64) []byte {
	b := make([]byte, n)
	vlib.ExpandInto(b, 0xC01D_0000+tag)
	return b
}

func hx(b []byte, err error) string {
	if err != nil {
		return "error:" + err.Error()
	}
	return fmt.Sprintf("%x", b)
}

type scenario struct {
	name string
	ops  []func() string
}

func scenarios() []scenario {
	hpkeOp := func(k hpke.KEM) func() string {
		return func() string {
			s := k.Scheme()
			pk, sk := s.DeriveKeyPair(sd(s.SeedSize(), 1))
			suite := hpke.NewSuite(k, hpke.KDF_HKDF_SHA256, hpke.AEAD_AES128GCM)
			snd, err := suite.NewSender(pk, []byte("i"))
			if err != nil {
				return "sender:" + err.Error()
			}
			enc, sealer, err := snd.Setup(vlib.NewReader(5))
			if err != nil {
				return "setup:" + err.Error()
			}
			ct, _ := sealer.Seal([]byte("pt"), nil)
			rcv, _ := suite.NewReceiver(sk, []byte("i"))
			op, err := rcv.Setup(enc)
			if err != nil {
				return "rsetup:" + err.Error()
			}
			pt, err := op.Open(ct, nil)
			return fmt.Sprintf("%s %x %x %s %v", s.Name(), enc[:8], ct, pt, err)
		}
	}
	grp := func(g group.Group) func() string {
		return func() string {
			e := g.HashToElement([]byte("m"), []byte("d"))
			s := g.HashToScalar([]byte("m"), []byte("d"))
			e.Mul(e, s)
			e.Add(e, g.Generator())
			q := g.NewElement().MulGen(s)
			return hx(e.MarshalBinary()) + hx(q.MarshalBinaryCompress())
		}
	}
	oprfOp := func(su oprf.Suite) func() string {
		return func() string {
			sk, err := oprf.DeriveKey(su, oprf.VerifiableMode, sd(32, 2), []byte("i"))
			if err != nil {
				return err.Error()
			}
			srv := oprf.NewVerifiableServer(su, sk)
			cl := oprf.NewVerifiableClient(su, srv.PublicKey())
			fin, req, err := cl.Blind([][]byte{[]byte("in")})
			if err != nil {
				return err.Error()
			}
			ev, err := srv.Evaluate(req)
			if err != nil {
				return err.Error()
			}
			out, err := cl.Finalize(fin, ev)
			if err != nil {
				return err.Error()
			}
			return fmt.Sprintf("%x", out[0])
		}
	}
	return []scenario{
		{"hpke", []func() string{hpkeOp(hpke.KEM_X25519_HKDF_SHA256), hpkeOp(hpke.KEM_P256_HKDF_SHA256), hpkeOp(hpke.KEM_X448_HKDF_SHA512),
			hpkeOp(hpke.KEM_XWING), hpkeOp(hpke.KEM_X25519_KYBER768_DRAFT00), hpkeOp(hpke.KEM_P521_HKDF_SHA512)}},
		{"group", []func() string{grp(group.P256), grp(group.P384), grp(group.P521), grp(group.Ristretto255)}},
		{"oprf", []func() string{oprfOp(oprf.SuiteP256), oprfOp(oprf.SuiteRistretto255), oprfOp(oprf.SuiteP384)}},
		{"bls", []func() string{
			func() string {
				sk, _ := bls.KeyGen[bls.G1](sd(32, 3), nil, nil)
				sig := bls.Sign(sk, []byte("m"))
				return fmt.Sprintf("%x %v", sig[:16], bls.Verify(sk.PublicKey(), []byte("m"), sig))
			},
			func() string {
				sk, _ := bls.KeyGen[bls.G2](sd(32, 4), nil, nil)
				sig := bls.Sign(sk, []byte("m"))
				return fmt.Sprintf("%x %v", sig[:16], bls.Verify(sk.PublicKey(), []byte("m"), sig))
			},
			func() string {
				g := new(bls12381.G1)
				g.Hash([]byte("m"), []byte("d"))
				h := new(bls12381.G2)
				h.Hash([]byte("m"), []byte("d"))
				e := bls12381.Pair(g, h)
				b, _ := e.MarshalBinary()
				return fmt.Sprintf("%x", b[:24])
			},
		}},
		{"kem", []func() string{
			func() string {
				s := mlkem768.Scheme()
				pk, sk := s.DeriveKeyPair(sd(s.SeedSize(), 5))
				ct, ss, _ := s.EncapsulateDeterministically(pk, sd(s.EncapsulationSeedSize(), 6))
				ss2, _ := s.Decapsulate(sk, ct)
				return fmt.Sprintf("%x %x %x", ct[:8], ss, ss2)
			},
			func() string {
				s := kyber768.Scheme()
				pk, sk := s.DeriveKeyPair(sd(s.SeedSize(), 5))
				ct, ss, _ := s.EncapsulateDeterministically(pk, sd(s.EncapsulationSeedSize(), 6))
				ss2, _ := s.Decapsulate(sk, ct)
				return fmt.Sprintf("%x %x %x", ct[:8], ss, ss2)
			},
			func() string {
				s := xwing.Scheme()
				pk, sk := s.DeriveKeyPair(sd(s.SeedSize(), 5))
				ct, ss, _ := s.EncapsulateDeterministically(pk, sd(s.EncapsulationSeedSize(), 6))
				ss2, _ := s.Decapsulate(sk, ct)
				return fmt.Sprintf("%x %x %x", ct[:8], ss, ss2)
			},
			func() string {
				s := hybrid.X25519MLKEM768()
				pk, sk := s.DeriveKeyPair(sd(s.SeedSize(), 5))
				ct, ss, _ := s.EncapsulateDeterministically(pk, sd(s.EncapsulationSeedSize(), 6))
				ss2, _ := s.Decapsulate(sk, ct)
				return fmt.Sprintf("%x %x %x", ct[:8], ss, ss2)
			},
			func() string {
				s := hybrid.P256Kyber768Draft00()
				pk, sk := s.DeriveKeyPair(sd(s.SeedSize(), 5))
				ct, ss, _ := s.EncapsulateDeterministically(pk, sd(s.EncapsulationSeedSize(), 6))
				ss2, _ := s.Decapsulate(sk, ct)
				return fmt.Sprintf("%x %x %x", ct[:8], ss, ss2)
			},
		}},
		{"sign", []func() string{
			func() string {
				sk := ed25519.NewKeyFromSeed(sd(32, 7))
				sig := ed25519.Sign(sk, []byte("m"))
				return fmt.Sprintf("%x %v", sig, ed25519.Verify(sk.Public().(ed25519.PublicKey), []byte("m"), sig))
			},
			func() string {
				sk := ed448.NewKeyFromSeed(sd(57, 7))
				sig := ed448.Sign(sk, []byte("m"), "c")
				return fmt.Sprintf("%x %v", sig, ed448.Verify(sk.Public().(ed448.PublicKey), []byte("m"), sig, "c"))
			},
			func() string {
				s := mldsa65.Scheme()
				pk, sk := s.DeriveKey(sd(s.SeedSize(), 8))
				sig := s.Sign(sk, []byte("m"), nil)
				return fmt.Sprintf("%x %v", sig[:32], s.Verify(pk, []byte("m"), sig, nil))
			},
			func() string {
				s := eddilithium2.Scheme()
				pk, sk := s.DeriveKey(sd(s.SeedSize(), 8))
				sig := s.Sign(sk, []byte("m"), nil)
				return fmt.Sprintf("%x %v", sig[:32], s.Verify(pk, []byte("m"), sig, nil))
			},
		}},
		{"xof+expander", []func() string{
			func() string { x := xof.K12D10.New(); x.Write(sd(20000, 9)); o := make([]byte, 40); x.Read(o); return fmt.Sprintf("%x", o) },
			func() string { x := xof.SHAKE128.New(); x.Write(sd(500, 9)); o := make([]byte, 40); x.Read(o); return fmt.Sprintf("%x", o) },
			func() string {
				e := expander.NewExpanderXOF(xof.SHAKE256, 0, []byte("dst"))
				return fmt.Sprintf("%x", e.Expand(sd(30, 10), 50))
			},
			func() string { x := xof.BLAKE2XB.New(); x.Write(sd(500, 9)); o := make([]byte, 40); x.Read(o); return fmt.Sprintf("%x", o) },
		}},
		{"curves", []func() string{
			func() string { x, y := p384.P384().ScalarBaseMult(sd(48, 11)); return x.Text(16) + y.Text(16) },
			func() string {
				var p fourq.Point
				var k [32]byte
				copy(k[:], sd(32, 11))
				p.ScalarBaseMult(&k)
				var o [32]byte
				p.Marshal(&o)
				return fmt.Sprintf("%x", o)
			},
			func() string {
				var c goldilocks.Curve
				var k goldilocks.Scalar
				copy(k[:], sd(56, 11))
				return hx(c.ScalarBaseMult(&k).MarshalBinary())
			},
			func() string {
				var pk, sk x25519.Key
				copy(sk[:], sd(32, 11))
				x25519.KeyGen(&pk, &sk)
				var pk4, sk4 x448.Key
				copy(sk4[:], sd(56, 11))
				x448.KeyGen(&pk4, &sk4)
				return fmt.Sprintf("%x%x", pk, pk4)
			},
		}},
	}
}

func TestC11Cold(t *testing.T) {
	defer vlib.Done()
	sc := scenarios()
	s := sc[vlib.Shard%len(sc)]
	sub := "cold/" + s.name
	const n = 16
	got := make([]string, n)
	var wg sync.WaitGroup
	start := make(chan struct{})
	for g := 0; g < n; g++ {
		g := g
		wg.Add(1)
		go func() {
			defer wg.Done()
			<-start
			defer func() {
				if r := recover(); r != nil {
					got[g] = fmt.Sprintf("panic: %v", r)
				}
			}()
			got[g] = s.ops[g%len(s.ops)]()
		}()
	}
	close(start)
	wg.Wait()
	// the sequential results are computed afterwards (computing them first would warm everything up)
	for g := 0; g < n; g++ {
		want := s.ops[g%len(s.ops)]()
		vlib.Eval(sub)
		if got[g] != want {
			vlib.ReportDirect(t, "C11/cold/"+s.name+"/result-differs",
				fmt.Sprintf("plan: scenario=%s, first use of the package in this process by %d goroutines at once; goroutine %d op %d returned %.120s, sequentially %.120s", s.name, n, g, g%len(s.ops), got[g], want),
				map[string]interface{}{"scenario": s.name, "goroutine": g})
			break
		}
		vlib.NonTrivial(sub, "first-use-concurrent", []byte(s.name), []byte{byte(g)})
	}
	vlib.Sample(sub, "plan", fmt.Sprintf("scenario=%s: %d goroutines, %d operations, first use of the package in the process", s.name, n, len(s.ops)))
}
