//go:build verif

// C01 — KEMs: decapsulation inverts encapsulation; tampering never yields the key.
package c01

import (
	"bytes"
	"fmt"
	"math/big"
	"reflect"
	"strings"
	"testing"

	"github.com/cloudflare/circl/hpke"
	"github.com/cloudflare/circl/kem"
	"github.com/cloudflare/circl/kem/schemes"
	"github.com/cloudflare/circl/zz_verif/vlib"
	"golang.org/x/crypto/sha3"
	"pgregory.net/rapid"
)

type schemeInfo struct {
	s kem.Scheme
	// X25519/X448 share inside the ciphertext: [xoff, xoff+xlen), xlen in {0,32,56}; xbound: the share
	// bytes themselves are bound into the secret (kem_context / combiner), so even the masked or
	// non-canonical bits must change the secret
	xoff, xlen int
	xbound     bool
	implicit   string // "", "mlkem", "kyber", "frodo"
	// offset/len of the implicit-rejection component ciphertext and of z inside sk, for the (R) check
	pure bool
	cost int // relative cost divisor for case counts
}

func allSchemes() []schemeInfo {
	var out []schemeInfo
	list := append([]kem.Scheme{}, schemes.All()...)
	list = append(list, hpke.KEM_X25519_KYBER768_DRAFT00.Scheme(), hpke.KEM_XWING.Scheme())
	for _, s := range list {
		si := schemeInfo{s: s, cost: 1}
		n := s.Name()
		switch {
		case n == "Kyber512-X25519" || n == "Kyber768-X25519":
			si.xoff, si.xlen = 0, 32
		case n == "Kyber768-X448" || n == "Kyber1024-X448":
			si.xoff, si.xlen = 0, 56
		case n == "X25519MLKEM768":
			si.xoff, si.xlen = 1088, 32
		case n == "HPKE_KEM_X25519_HKDF_SHA256" || n == "HPKE_KEM_X25519_KYBER768_HKDF_SHA256":
			si.xoff, si.xlen, si.xbound = 0, 32, true
		case n == "HPKE_KEM_X448_HKDF_SHA512":
			si.xoff, si.xlen, si.xbound = 0, 56, true
		case n == "X-Wing" || n == "HPKE_KEM_XWING":
			si.xoff, si.xlen, si.xbound = 1088, 32, true
		case strings.HasPrefix(n, "ML-KEM"):
			si.implicit, si.pure = "mlkem", true
		case strings.HasPrefix(n, "Kyber"):
			si.implicit, si.pure = "kyber", true
		case strings.HasPrefix(n, "FrodoKEM"):
			si.implicit, si.pure = "frodo", true
			si.cost = 8
		}
		if strings.Contains(n, "P521") || strings.Contains(n, "P384") || strings.Contains(n, "X448") {
			si.cost = 3
		}
		out = append(out, si)
	}
	return out
}

func toLE(v *big.Int, w int) []byte {
	be := v.FillBytes(make([]byte, w))
	for i, j := 0, w-1; i < j; i, j = i+1, j-1 {
		be[i], be[j] = be[j], be[i]
	}
	return be
}

func canonU(b []byte) *big.Int {
	v := vlib.FromLE(b)
	var p *big.Int
	if len(b) == 32 {
		v.SetBit(v, 255, 0)
		p = new(big.Int).Sub(new(big.Int).Lsh(big.NewInt(1), 255), big.NewInt(19))
	} else {
		p = new(big.Int).Sub(new(big.Int).Lsh(big.NewInt(1), 448), new(big.Int).Lsh(big.NewInt(1), 224))
		p.Sub(p, big.NewInt(1))
	}
	return v.Mod(v, p)
}

func shake256(n int, parts ...[]byte) []byte {
	h := sha3.NewShake256()
	for _, p := range parts {
		h.Write(p)
	}
	o := make([]byte, n)
	h.Read(o)
	return o
}

func must(t vlib.TB, err error, what string) {
	if err != nil {
		t.Fatalf("unexpected error in %s: %v", what, err)
	}
}

type caseCtx struct {
	si        schemeInfo
	kseed     []byte
	eseed     []byte
	pk        kem.PublicKey
	sk        kem.PrivateKey
	pkb, skb  []byte
	ct, ss    []byte
	name, sub string
}

func honest(t vlib.TB, si schemeInfo, kseed, eseed []byte) (*caseCtx, bool) {
	s := si.s
	name := s.Name()
	sub := "roundtrip/" + name
	c := &caseCtx{si: si, kseed: kseed, eseed: eseed, name: name, sub: sub}
	pk, sk := s.DeriveKeyPair(kseed)
	pk2, sk2 := s.DeriveKeyPair(kseed)
	pkb, err := pk.MarshalBinary()
	must(t, err, "pk.MarshalBinary")
	skb, err := sk.MarshalBinary()
	must(t, err, "sk.MarshalBinary")
	pkb2, _ := pk2.MarshalBinary()
	skb2, _ := sk2.MarshalBinary()
	if !bytes.Equal(pkb, pkb2) || !bytes.Equal(skb, skb2) {
		if vlib.Report(t, "C01/determinism/"+name+"/DeriveKeyPair", fmt.Sprintf("two derivations from seed %x give pk %s vs %s", kseed, vlib.Hex(pkb), vlib.Hex(pkb2))) {
			return nil, false
		}
	}
	if len(pkb) != s.PublicKeySize() || len(skb) != s.PrivateKeySize() {
		vlib.Report(t, "C01/size/"+name+"/key", fmt.Sprintf("pk %d (adv %d) sk %d (adv %d)", len(pkb), s.PublicKeySize(), len(skb), s.PrivateKeySize()))
		return nil, false
	}
	ct, ss, err := s.EncapsulateDeterministically(pk, eseed)
	must(t, err, "EncapsulateDeterministically")
	ct2, ss2, err := s.EncapsulateDeterministically(pk, eseed)
	must(t, err, "EncapsulateDeterministically(2)")
	if !bytes.Equal(ct, ct2) || !bytes.Equal(ss, ss2) {
		if vlib.Report(t, "C01/determinism/"+name+"/Encapsulate", fmt.Sprintf("kseed %x eseed %x: ct %s vs %s", kseed, eseed, vlib.Hex(ct), vlib.Hex(ct2))) {
			return nil, false
		}
	}
	if len(ct) != s.CiphertextSize() || len(ss) != s.SharedKeySize() {
		vlib.Report(t, "C01/size/"+name+"/ct", fmt.Sprintf("ct %d (adv %d) ss %d (adv %d)", len(ct), s.CiphertextSize(), len(ss), s.SharedKeySize()))
		return nil, false
	}
	// the returned slices belong to the caller, spare capacity included: writing behind the end of one of
	// them (what append does) must not change the other results (they are compared with the second call's)
	for _, b := range [][]byte{ct, ss, pkb, skb} {
		full := b[:cap(b)]
		for i := len(b); i < len(full); i++ {
			full[i] ^= 0xA5
		}
	}
	if !bytes.Equal(ct, ct2) || !bytes.Equal(ss, ss2) || !bytes.Equal(pkb, pkb2) || !bytes.Equal(skb, skb2) {
		vlib.Report(t, "C01/returned-slices-share-storage/"+name, fmt.Sprintf("kseed %x eseed %x: writing into the spare capacity of one returned slice (ct cap %d len %d, ss cap %d len %d, pk cap %d len %d, sk cap %d len %d) changed another result", kseed, eseed, cap(ct), len(ct), cap(ss), len(ss), cap(pkb), len(pkb), cap(skb), len(skb)))
		return nil, false
	}
	got, err := s.Decapsulate(sk, ct)
	if err != nil || !bytes.Equal(got, ss) {
		vlib.Report(t, "C01/roundtrip/"+name, fmt.Sprintf("kseed %x eseed %x: Decapsulate err=%v got %x want %x", kseed, eseed, err, got, ss))
		return nil, false
	}
	c.pk, c.sk, c.pkb, c.skb, c.ct, c.ss = pk, sk, pkb, skb, ct, ss
	return c, true
}

func marshalRoundTrip(t vlib.TB, c *caseCtx) {
	s := c.si.s
	name := c.name
	// the keys are decoded from scratch buffers which are overwritten afterwards: an unmarshalled key
	// must not keep a reference to the caller's buffer
	pkbuf, skbuf := append([]byte{}, c.pkb...), append([]byte{}, c.skb...)
	pk2, err := s.UnmarshalBinaryPublicKey(pkbuf)
	must(t, err, "UnmarshalBinaryPublicKey")
	sk2, err := s.UnmarshalBinaryPrivateKey(skbuf)
	must(t, err, "UnmarshalBinaryPrivateKey")
	for i := range pkbuf {
		pkbuf[i] = 0xAA
	}
	for i := range skbuf {
		skbuf[i] = 0x55
	}
	// likewise the bytes handed out by MarshalBinary belong to the caller
	if mb, err := c.sk.MarshalBinary(); err == nil {
		for i := range mb {
			mb[i] ^= 0xff
		}
	}
	if mb, err := c.pk.MarshalBinary(); err == nil {
		for i := range mb {
			mb[i] ^= 0xff
		}
	}
	if b, _ := c.sk.MarshalBinary(); !bytes.Equal(b, c.skb) {
		vlib.Report(t, "C01/marshal/"+name+"/marshalled-bytes-shared", "modifying the result of sk.MarshalBinary changed the key")
		return
	}
	if b, _ := c.pk.MarshalBinary(); !bytes.Equal(b, c.pkb) {
		vlib.Report(t, "C01/marshal/"+name+"/marshalled-bytes-shared", "modifying the result of pk.MarshalBinary changed the key")
		return
	}
	if !pk2.Equal(c.pk) || !c.pk.Equal(pk2) || !sk2.Equal(c.sk) || !c.sk.Equal(sk2) {
		vlib.Report(t, "C01/marshal/"+name+"/Equal", "unmarshalled key not Equal to original")
		return
	}
	b, _ := pk2.MarshalBinary()
	b2, _ := sk2.MarshalBinary()
	if !bytes.Equal(b, c.pkb) || !bytes.Equal(b2, c.skb) {
		vlib.Report(t, "C01/marshal/"+name+"/bytes", "re-marshalled key differs")
		return
	}
	pb, _ := sk2.Public().MarshalBinary()
	pb0, _ := c.sk.Public().MarshalBinary()
	if !bytes.Equal(pb, c.pkb) || !bytes.Equal(pb0, c.pkb) {
		vlib.Report(t, "C01/marshal/"+name+"/Public", fmt.Sprintf("sk'.Public() = %s, pk = %s", vlib.Hex(pb), vlib.Hex(c.pkb)))
		return
	}
	ct, ss, err := s.EncapsulateDeterministically(pk2, c.eseed)
	must(t, err, "Encapsulate to pk'")
	if !bytes.Equal(ct, c.ct) || !bytes.Equal(ss, c.ss) {
		vlib.Report(t, "C01/marshal/"+name+"/encaps", "encapsulation to unmarshalled pk differs")
		return
	}
	got, err := s.Decapsulate(sk2, c.ct)
	if err != nil || !bytes.Equal(got, c.ss) {
		vlib.Report(t, "C01/marshal/"+name+"/decaps", fmt.Sprintf("decapsulation with unmarshalled sk: err=%v", err))
		return
	}
	vlib.NonTrivial("roundtrip/"+name, "marshal-roundtrip", []byte("m"), c.kseed, c.eseed)
}

// lightTamper: in the exhaustive sweeps only the cheap part of the oracle runs (one decapsulation,
// not the honest secret, exact rejection value where a reference exists).
var lightTamper bool

// tamper evaluates one altered ciphertext; alt describes it.
func tamper(t vlib.TB, c *caseCtx, ct2 []byte, alt string, otherSK kem.PrivateKey, validCT bool) {
	s := c.si.s
	name := c.name
	sub := "tamper/" + name
	vlib.Eval(sub)
	if bytes.Equal(ct2, c.ct) {
		vlib.Class(sub, "alteration-was-identity")
		return
	}
	var r1, r2 []byte
	var e1, e2 error
	if p, st := vlib.Catch(func() {
		r1, e1 = s.Decapsulate(c.sk, ct2)
		if lightTamper {
			r2, e2 = r1, e1
		} else {
			r2, e2 = s.Decapsulate(c.sk, ct2)
		}
	}); p != nil {
		vlib.Report(t, "C01/panic/"+name+"/Decapsulate/"+vlib.PanicClass(p), fmt.Sprintf("alt=%s ct=%s panic=%v\n%s", alt, vlib.Hex(ct2), p, st))
		return
	}
	if (e1 == nil) != (e2 == nil) || !bytes.Equal(r1, r2) {
		vlib.Report(t, "C01/tamper-determinism/"+name, fmt.Sprintf("alt=%s: two decapsulations differ", alt))
		return
	}
	// decapsulating a bad ciphertext (refused or not) leaves the private key as it was: the honest
	// ciphertext still decapsulates to the honest secret and the key marshals to the same bytes
	if !lightTamper || e1 != nil {
		r0, e0 := s.Decapsulate(c.sk, c.ct)
		skb0, _ := c.sk.MarshalBinary()
		if e0 != nil || !bytes.Equal(r0, c.ss) || !bytes.Equal(skb0, c.skb) {
			vlib.Report(t, "C01/key-changed-by-decapsulating-altered-ciphertext/"+name, fmt.Sprintf("alt=%s (decapsulation error: %v): afterwards the honest ciphertext gives err=%v, honest secret=%v, private key bytes unchanged=%v", alt, e1, e0, bytes.Equal(r0, c.ss), bytes.Equal(skb0, c.skb)))
			return
		}
	}
	if e1 != nil {
		vlib.Class(sub, "decap=error")
		if c.si.implicit != "" {
			vlib.Report(t, "C01/implicit-rejection/"+name+"/error", fmt.Sprintf("alt=%s: implicit-rejection KEM returned error %v", alt, e1))
		}
		return
	}
	if len(r1) != s.SharedKeySize() {
		vlib.Report(t, "C01/size/"+name+"/tampered-ss", fmt.Sprintf("alt=%s: len %d", alt, len(r1)))
		return
	}
	if !lightTamper && !decapsulateToAgrees(t, c, ct2, r1, alt) {
		return
	}
	// is the altered part bound?
	bound := true
	if c.si.xlen > 0 && !c.si.xbound {
		a, b := c.ct[c.si.xoff:c.si.xoff+c.si.xlen], ct2[c.si.xoff:c.si.xoff+c.si.xlen]
		rest := bytes.Equal(c.ct[:c.si.xoff], ct2[:c.si.xoff]) && bytes.Equal(c.ct[c.si.xoff+c.si.xlen:], ct2[c.si.xoff+c.si.xlen:])
		if rest && canonU(a).Cmp(canonU(b)) == 0 {
			bound = false
			vlib.Class(sub, "x-share-noncanonical-alias")
			if !bytes.Equal(r1, c.ss) {
				// RFC 7748: same canonical u gives the same output; not part of C01's claim, only counted
				vlib.Class(sub, "x-share-alias-different-secret")
			}
		}
	}
	if bound && bytes.Equal(r1, c.ss) {
		vlib.Report(t, "C01/tamper-yields-secret/"+name, fmt.Sprintf("kseed %x eseed %x alt=%s: altered ciphertext decapsulates to the honest secret", c.kseed, c.eseed, alt))
		return
	}
	vlib.NonTrivial(sub, "decap=no-error", c.kseed, c.eseed, []byte(alt), ct2)
	vlib.Sample(sub, "tampered", fmt.Sprintf("scheme=%s kseed=%s eseed=%s alt=%s → no error, ss'≠ss", name, vlib.Hex(c.kseed), vlib.Hex(c.eseed), alt))
	if validCT {
		vlib.Class(sub, "valid-ciphertext-of-other-encapsulation")
		return
	}
	if c.si.implicit != "" {
		// (R) reference value of the rejection secret
		var want []byte
		switch c.si.implicit {
		case "mlkem":
			z := c.skb[len(c.skb)-32:]
			want = shake256(32, z, ct2)
		case "kyber":
			z := c.skb[len(c.skb)-32:]
			hc := sha3.Sum256(ct2)
			want = shake256(32, z, hc[:])
		case "frodo":
			// FrodoKEM: ss = SHAKE128(ct' || s), s = first 16 bytes of the private key
			h := sha3.NewShake128()
			h.Write(ct2)
			h.Write(c.skb[:16])
			want = make([]byte, 16)
			h.Read(want)
		}
		if want != nil && !bytes.Equal(want, r1) {
			vlib.Report(t, "C01/implicit-rejection/"+name+"/value", fmt.Sprintf("alt=%s: rejection secret %x, specification %x", alt, r1, want))
			return
		}
		if lightTamper {
			vlib.Class(sub, "implicit-rejection-value-checked")
			return
		}
		// (M) depends on the private key
		if otherSK != nil {
			r3, e3 := s.Decapsulate(otherSK, ct2)
			if e3 != nil || bytes.Equal(r3, r1) {
				vlib.Report(t, "C01/implicit-rejection/"+name+"/key-independent", fmt.Sprintf("alt=%s: err=%v same=%v", alt, e3, bytes.Equal(r3, r1)))
				return
			}
		}
		// (M) depends on the ciphertext
		ct3 := append([]byte{}, ct2...)
		ct3[len(ct3)/2] ^= 0x10
		if !bytes.Equal(ct3, c.ct) {
			r4, e4 := s.Decapsulate(c.sk, ct3)
			if e4 != nil || bytes.Equal(r4, r1) {
				vlib.Report(t, "C01/implicit-rejection/"+name+"/ct-independent", fmt.Sprintf("alt=%s: err=%v same=%v", alt, e4, bytes.Equal(r4, r1)))
				return
			}
		}
		vlib.Class(sub, "implicit-rejection-checked")
	}
}

// specialU draws a w-byte little-endian field value that is special for the Montgomery ladder: the
// points of small order, the values around the prime and around the powers of two, in canonical form,
// plus p, and (for 32 bytes) with the ignored top bit set.
func specialU(t *rapid.T, w int) (string, []byte) {
	var p *big.Int
	one := big.NewInt(1)
	if w == 32 {
		p = new(big.Int).Sub(new(big.Int).Lsh(one, 255), big.NewInt(19))
	} else {
		p = new(big.Int).Sub(new(big.Int).Lsh(one, 448), new(big.Int).Lsh(one, 224))
		p.Sub(p, one)
	}
	type cand struct {
		n string
		v *big.Int
	}
	cs := []cand{{"0", big.NewInt(0)}, {"1", big.NewInt(1)}, {"p-1", new(big.Int).Sub(p, one)}, {"p", new(big.Int).Set(p)}, {"p+1", new(big.Int).Add(p, one)}, {"2", big.NewInt(2)}, {"p-2", new(big.Int).Sub(p, big.NewInt(2))}}
	if w == 32 {
		o8a, _ := new(big.Int).SetString("325606250916557431795983626356110631294008115727848805560023387167927233504", 10)
		o8b, _ := new(big.Int).SetString("39382357235489614581723060781553021112529911719440698176882885853963445705823", 10)
		cs = append(cs, cand{"order8a", o8a}, cand{"order8b", o8b}, cand{"order8a+p", new(big.Int).Add(o8a, p)})
	}
	k := rapid.IntRange(0, len(cs)-1).Draw(t, "special")
	v := new(big.Int).Set(cs[k].v)
	nm := cs[k].n
	max := new(big.Int).Lsh(one, uint(8*w))
	if v.Cmp(max) >= 0 {
		v.Sub(v, p)
		nm += "(reduced)"
	}
	out := toLE(v, w)
	if w == 32 && rapid.IntRange(0, 3).Draw(t, "top") == 0 {
		out[31] |= 0x80
		nm += "|top"
	}
	return nm, out
}

// decapsulateToAgrees: where the private key type has DecapsulateTo(ss, ct), the secret written must be
// the one Decapsulate returns, whatever the output buffer held before (a buffer holding the honest secret
// of an earlier decapsulation is the ordinary case), and also when the output buffer is the head of the
// buffer holding the ciphertext.
func decapsulateToAgrees(t vlib.TB, c *caseCtx, ct2, want []byte, alt string) bool {
	m := reflect.ValueOf(c.sk).MethodByName("DecapsulateTo")
	if !m.IsValid() {
		return true
	}
	f, ok := m.Interface().(func(ss, ct []byte))
	if !ok {
		return true
	}
	sub := "tamper/" + c.name
	for _, fill := range []string{"honest-secret", "a5", "in-ciphertext-buffer"} {
		ss := make([]byte, len(want))
		ct := append([]byte{}, ct2...)
		switch fill {
		case "honest-secret":
			copy(ss, c.ss)
		case "a5":
			for i := range ss {
				ss[i] = 0xa5
			}
		case "in-ciphertext-buffer":
			ss = ct[:len(want):len(want)]
		}
		if p, st := vlib.Catch(func() { f(ss, ct) }); p != nil {
			vlib.Report(t, "C01/panic/"+c.name+"/DecapsulateTo/"+vlib.PanicClass(p), fmt.Sprintf("alt=%s output=%s panic=%v\n%s", alt, fill, p, st))
			return false
		}
		if !bytes.Equal(ss, want) {
			vlib.Report(t, "C01/DecapsulateTo/"+c.name+"/depends-on-output-buffer/"+fill, fmt.Sprintf("kseed %x eseed %x alt=%s: DecapsulateTo into a buffer holding %s wrote %x, Decapsulate returns %x (honest secret %x)", c.kseed, c.eseed, alt, fill, ss, want, c.ss))
			return false
		}
	}
	vlib.Class(sub, "DecapsulateTo-into-used-buffers")
	return true
}

func TestC01(t *testing.T) {
	defer vlib.Done()
	for _, si := range allSchemes() {
		si := si
		s := si.s
		t.Run(s.Name(), func(t *testing.T) {
			n := vlib.N(120, 1500) / si.cost
			vlib.Check(t, n, func(t *rapid.T) {
				kseed := vlib.EdgeBytes(t, s.SeedSize(), "kseed")
				eseed := vlib.EdgeBytes(t, s.EncapsulationSeedSize(), "eseed")
				vlib.Eval("roundtrip/" + s.Name())
				c, ok := honest(t, si, kseed, eseed)
				if !ok {
					return
				}
				if rapid.IntRange(0, 3).Draw(t, "doMarshal") == 0 {
					marshalRoundTrip(t, c)
				}
				if !decapsulateToAgrees(t, c, c.ct, c.ss, "none") {
					return
				}
				// other key of the same scheme
				oseed := vlib.EdgeBytes(t, s.SeedSize(), "oseed")
				// the other key must differ in every part of the seed (for Kyber/ML-KEM the
				// rejection secret depends on the key only through z = seed[32:])
				if oseed[0] == kseed[0] {
					oseed[0] ^= 1
				}
				if l := len(oseed) - 1; oseed[l] == kseed[l] {
					oseed[l] ^= 1
				}
				opk, osk := s.DeriveKeyPair(oseed)
				kind := rapid.SampledFrom([]string{"bitflip", "bitflip", "bitflip", "edit", "zeros", "ones", "other-key", "other-eseed", "xshare", "xlow"}).Draw(t, "alt")
				ct2 := append([]byte{}, c.ct...)
				alt := kind
				switch kind {
				case "bitflip":
					i := rapid.IntRange(0, 8*len(ct2)-1).Draw(t, "bit")
					ct2[i/8] ^= 1 << (i % 8)
					alt = fmt.Sprintf("bitflip@%d", i)
				case "edit":
					w := rapid.IntRange(1, 8).Draw(t, "w")
					off := rapid.IntRange(0, len(ct2)-w).Draw(t, "off")
					vlib.FillRandom(t, ct2[off:off+w], "edit")
					alt = fmt.Sprintf("edit@%d/%d", off, w)
				case "zeros":
					for i := range ct2 {
						ct2[i] = 0
					}
				case "ones":
					for i := range ct2 {
						ct2[i] = 0xff
					}
				case "other-key":
					var err error
					ct2, _, err = s.EncapsulateDeterministically(opk, eseed)
					must(t, err, "encapsulate to other key")
				case "other-eseed":
					es2 := append([]byte{}, eseed...)
					es2[0] ^= 0x80
					var err error
					ct2, _, err = s.EncapsulateDeterministically(c.pk, es2)
					must(t, err, "encapsulate with other seed")
				case "xlow":
					// the X25519/X448 share replaced by a point of small order or another special value of
					// the field (canonical and not); schemes without such a share get the value at a drawn offset
					w := si.xlen
					off := si.xoff
					if w == 0 {
						w = 32
						off = rapid.IntRange(0, len(ct2)-w).Draw(t, "off")
					}
					nm, v := specialU(t, w)
					copy(ct2[off:off+w], v)
					alt = fmt.Sprintf("xlow@%d/%s", off, nm)
				case "xshare":
					if si.xlen == 0 {
						i := rapid.IntRange(0, 8*len(ct2)-1).Draw(t, "bit")
						ct2[i/8] ^= 1 << (i % 8)
						alt = fmt.Sprintf("bitflip@%d", i)
					} else {
						// non-canonical alias: u+p, or the masked top bit
						x := ct2[si.xoff : si.xoff+si.xlen]
						if si.xlen == 32 && rapid.Bool().Draw(t, "topbit") {
							x[31] ^= 0x80
							alt = "xshare-topbit"
						} else {
							i := rapid.IntRange(0, 8*si.xlen-1).Draw(t, "xbit")
							x[i/8] ^= 1 << (i % 8)
							alt = fmt.Sprintf("xshare-bit@%d", i)
						}
					}
				}
				vlib.Class("tamper/"+s.Name(), "alter="+kind)
				tamper(t, c, ct2, alt, osk, kind == "other-eseed")
			})
		})
	}
}

// TestC01AllBitFlips: every single-bit flip of one honest ciphertext per scheme (both tiers;
// sharded by bit index in thorough). FrodoKEM is stratified.
func TestC01AllBitFlips(t *testing.T) {
	defer vlib.Done()
	// quick: the cheap part of the oracle on every flip (FrodoKEM: 200 positions); thorough: the full oracle, sharded
	lightTamper = !vlib.Thorough()
	defer func() { lightTamper = false }()
	for _, si := range allSchemes() {
		s := si.s
		kseed := make([]byte, s.SeedSize())
		eseed := make([]byte, s.EncapsulationSeedSize())
		vlib.ExpandInto(kseed, uint64(vlib.Seed)*77+1)
		vlib.ExpandInto(eseed, uint64(vlib.Seed)*77+2)
		c, ok := honest(t, si, kseed, eseed)
		if !ok {
			continue
		}
		oseed := append([]byte{}, kseed...)
		oseed[0] ^= 1
		oseed[len(oseed)-1] ^= 1
		_, osk := s.DeriveKeyPair(oseed)
		nbits := 8 * len(c.ct)
		var idx []int
		if si.implicit == "frodo" && !vlib.Thorough() {
			for i := 0; i < 100; i++ {
				idx = append(idx, i*7%512, nbits-1-(i*13%512))
			}
		} else if si.implicit == "frodo" {
			for i := 0; i < 64*8; i++ {
				idx = append(idx, i, nbits-1-i)
			}
			rb := make([]byte, 128)
			vlib.ExpandInto(rb, uint64(vlib.Seed)*77+3)
			for k := 0; k < 64; k++ {
				by := (int(rb[2*k])<<8 | int(rb[2*k+1])) % len(c.ct)
				for b := 0; b < 8; b++ {
					idx = append(idx, by*8+b)
				}
			}
		} else {
			for i := 0; i < nbits; i++ {
				idx = append(idx, i)
			}
			if vlib.Shard == 0 {
				vlib.Exhaustive("C01 single-bit flips of one honest ciphertext: "+s.Name(), int64(nbits), "all shards together")
			}
		}
		for k, i := range idx {
			if k%vlib.NShards != vlib.Shard {
				continue
			}
			ct2 := append([]byte{}, c.ct...)
			ct2[i/8] ^= 1 << (i % 8)
			tamper(t, c, ct2, fmt.Sprintf("allflips@%d", i), osk, false)
			if t.Failed() {
				return
			}
		}
	}
}

// TestC01Auth: the authenticated DHKEM modes round-trip and bind the sender key.
func TestC01Auth(t *testing.T) {
	defer vlib.Done()
	for _, k := range []hpke.KEM{hpke.KEM_P256_HKDF_SHA256, hpke.KEM_P384_HKDF_SHA384, hpke.KEM_P521_HKDF_SHA512, hpke.KEM_X25519_HKDF_SHA256, hpke.KEM_X448_HKDF_SHA512} {
		s := k.Scheme().(kem.AuthScheme)
		name := s.Name()
		sub := "auth/" + name
		vlib.Check(t, vlib.N(25, 300), func(t *rapid.T) {
			pkR, skR := s.DeriveKeyPair(vlib.EdgeBytes(t, s.SeedSize(), "r"))
			pkS, skS := s.DeriveKeyPair(vlib.EdgeBytes(t, s.SeedSize(), "s"))
			seedO := vlib.EdgeBytes(t, s.SeedSize(), "o")
			pkO, _ := s.DeriveKeyPair(seedO)
			eseed := vlib.EdgeBytes(t, s.EncapsulationSeedSize(), "e")
			vlib.Eval(sub)
			ct, ss, err := s.AuthEncapsulateDeterministically(pkR, skS, eseed)
			must(t, err, "AuthEncapsulateDeterministically")
			got, err := s.AuthDecapsulate(skR, ct, pkS)
			if err != nil || !bytes.Equal(got, ss) {
				vlib.Report(t, "C01/auth-roundtrip/"+name, fmt.Sprintf("err=%v", err))
				return
			}
			if !pkO.Equal(pkS) {
				got2, err := s.AuthDecapsulate(skR, ct, pkO)
				if err == nil && bytes.Equal(got2, ss) {
					vlib.Report(t, "C01/auth-wrong-sender/"+name, "AuthDecapsulate with another sender key returns the honest secret")
					return
				}
				vlib.NonTrivial(sub, "wrong-sender", ct, seedO)
			}
			// base-mode decapsulation of an auth ciphertext must not give the secret either
			got3, err := s.Decapsulate(skR, ct)
			if err == nil && bytes.Equal(got3, ss) {
				vlib.Report(t, "C01/auth-vs-base/"+name, "base Decapsulate of an auth encapsulation returns the auth secret")
				return
			}
		})
	}
}
