//go:build verif

package c01

import (
	"bytes"
	"fmt"
	"testing"

	"github.com/cloudflare/circl/dh/x25519"
	"github.com/cloudflare/circl/dh/x448"
	"github.com/cloudflare/circl/hpke"
	"github.com/cloudflare/circl/kem"
	"github.com/cloudflare/circl/kem/schemes"
	refhpke "github.com/cloudflare/circl/zz_verif/ref/hpke"
	"github.com/cloudflare/circl/zz_verif/vlib"
	"pgregory.net/rapid"
)

// The kem/hybrid schemes are the concatenation of two component KEMs whose seeds are consecutive
// pieces of SHAKE256(seed) (key derivation) resp. SHAKE256(eseed) (encapsulation). The post-quantum
// component is a public scheme, the X25519/X448 component is SHAKE256(component seed) fed to the
// RFC 7748 function; so the expected key bytes can be computed without kem/hybrid. The P-256
// component of P256Kyber768Draft00 is not recomputed (only its offsets are used).
type hybridRef struct {
	name    string
	pq      string // name of the post-quantum component in kem/schemes
	pqFirst bool
	xsize   int // 32, 56; 0 = P-256 (classical half not recomputed: pk 65, sk 32 bytes, seed 128? see below)
}

var hybridRefs = []hybridRef{
	{"Kyber512-X25519", "Kyber512", false, 32},
	{"Kyber768-X25519", "Kyber768", false, 32},
	{"Kyber768-X448", "Kyber768", false, 56},
	{"Kyber1024-X448", "Kyber1024", false, 56},
	{"X25519MLKEM768", "ML-KEM-768", true, 32},
}

func xKeyFromSeed(seed []byte, size int) (sk, pk []byte) {
	sk = shake256(size, seed)
	if size == 32 {
		var s, p x25519.Key
		copy(s[:], sk)
		x25519.KeyGen(&p, &s)
		return sk, p[:]
	}
	var s, p x448.Key
	copy(s[:], sk)
	x448.KeyGen(&p, &s)
	return sk, p[:]
}

// TestC01HybridDerivation: derived hybrid keys are exactly the concatenation of the component keys
// derived from the two pieces of the expanded seed (so that, in particular, every byte of the
// component private keys — the implicit-rejection value z included — depends on the seed).
func TestC01HybridDerivation(t *testing.T) {
	defer vlib.Done()
	for _, h := range hybridRefs {
		h := h
		s := schemes.ByName(h.name)
		pq := schemes.ByName(h.pq)
		if s == nil || pq == nil {
			t.Fatalf("harness: scheme %s / %s not found", h.name, h.pq)
		}
		sub := "hybrid-derivation/" + h.name
		vlib.Check(t, vlib.N(40, 400), func(t *rapid.T) {
			seed := vlib.EdgeBytes(t, s.SeedSize(), "seed")
			vlib.Eval(sub)
			exp := shake256(pq.SeedSize()+h.xsize, seed)
			var pqSeed, xSeed []byte
			if h.pqFirst {
				pqSeed, xSeed = exp[:pq.SeedSize()], exp[pq.SeedSize():]
			} else {
				xSeed, pqSeed = exp[:h.xsize], exp[h.xsize:]
			}
			pqPk, pqSk := pq.DeriveKeyPair(pqSeed)
			pqPkb, _ := pqPk.MarshalBinary()
			pqSkb, _ := pqSk.MarshalBinary()
			xSk, xPk := xKeyFromSeed(xSeed, h.xsize)
			var wantPk, wantSk []byte
			if h.pqFirst {
				wantPk, wantSk = append(append([]byte{}, pqPkb...), xPk...), append(append([]byte{}, pqSkb...), xSk...)
			} else {
				wantPk, wantSk = append(append([]byte{}, xPk...), pqPkb...), append(append([]byte{}, xSk...), pqSkb...)
			}
			pk, sk := s.DeriveKeyPair(seed)
			pkb, _ := pk.MarshalBinary()
			skb, _ := sk.MarshalBinary()
			if !bytes.Equal(pkb, wantPk) {
				vlib.Report(t, "C01/hybrid-derivation/"+h.name+"/public-key", fmt.Sprintf("seed=%x: public key differs from the concatenation of the component keys derived from SHAKE256(seed): first difference at byte %d of %d", seed, firstDiff(pkb, wantPk), len(wantPk)))
				return
			}
			if !bytes.Equal(skb, wantSk) {
				vlib.Report(t, "C01/hybrid-derivation/"+h.name+"/private-key", fmt.Sprintf("seed=%x: private key differs from the concatenation of the component keys derived from SHAKE256(seed): first difference at byte %d of %d (got …%x want …%x)", seed, firstDiff(skb, wantSk), len(wantSk), tailOf(skb, 16), tailOf(wantSk, 16)))
				return
			}
			// encapsulation: the post-quantum part of the ciphertext is the component's deterministic encapsulation
			eseed := vlib.EdgeBytes(t, s.EncapsulationSeedSize(), "eseed")
			ct, _, err := s.EncapsulateDeterministically(pk, eseed)
			if err != nil {
				t.Fatalf("encapsulate: %v", err)
			}
			eexp := shake256(pq.EncapsulationSeedSize()+h.xsize, eseed)
			var pqE []byte
			var off int
			if h.pqFirst {
				pqE, off = eexp[:pq.EncapsulationSeedSize()], 0
			} else {
				pqE, off = eexp[h.xsize:], h.xsize
			}
			pqCt, _, err := pq.EncapsulateDeterministically(pqPk, pqE)
			if err != nil {
				t.Fatalf("component encapsulate: %v", err)
			}
			if !bytes.Equal(ct[off:off+len(pqCt)], pqCt) {
				vlib.Report(t, "C01/hybrid-derivation/"+h.name+"/ciphertext", fmt.Sprintf("seed=%x eseed=%x: the %s part of the ciphertext differs from the component's deterministic encapsulation", seed, eseed, h.pq))
				return
			}
			vlib.NonTrivial(sub, "", seed, eseed)
			vlib.Sample(sub, "ref", fmt.Sprintf("%s seed=%x…: keys = %s(piece)‖X(piece) as recomputed", h.name, seed[:4], h.pq))
		})
	}
	_ = kem.ErrSeedSize
}

func firstDiff(a, b []byte) int {
	for i := 0; i < len(a) && i < len(b); i++ {
		if a[i] != b[i] {
			return i
		}
	}
	return min(len(a), len(b))
}

func tailOf(b []byte, n int) []byte {
	if len(b) < n {
		return b
	}
	return b[len(b)-n:]
}

// TestC01HPKEDerivation: the HPKE KEMs' DeriveKeyPair and deterministic encapsulation against the
// independent RFC 9180 reference (ref/hpke): keys, enc and shared secret are functions of the seeds
// that the specification fixes, not only self-consistent ones.
func TestC01HPKEDerivation(t *testing.T) {
	defer vlib.Done()
	for _, id := range refhpke.KEMIDs() {
		id := id
		k := hpke.KEM(id)
		if !k.IsValid() {
			continue
		}
		s := k.Scheme()
		ref := refhpke.KEMByID(id)
		sub := "hpke-derivation/" + s.Name()
		cost := 1
		if id == 0x0011 || id == 0x0012 || id == 0x0021 {
			cost = 3
		}
		vlib.Check(t, vlib.N(60, 600)/cost, func(t *rapid.T) {
			seed := vlib.EdgeBytes(t, s.SeedSize(), "seed")
			eseed := vlib.EdgeBytes(t, s.EncapsulationSeedSize(), "eseed")
			vlib.Eval(sub)
			rsk, rpk, rerr := ref.DeriveKeyPair(seed)
			var pk kem.PublicKey
			var sk kem.PrivateKey
			if p, st := vlib.Catch(func() { pk, sk = s.DeriveKeyPair(seed) }); p != nil {
				if rerr == nil {
					vlib.Report(t, "C01/panic/"+s.Name()+"/DeriveKeyPair/"+vlib.PanicClass(p), fmt.Sprintf("seed=%x: %v (the reference derives a key)\n%s", seed, p, st))
				} else {
					vlib.Class(sub, "no-key-for-this-seed(reference agrees)")
				}
				return
			}
			if rerr != nil {
				vlib.Class(sub, "reference-derives-no-key")
				return
			}
			pkb, _ := pk.MarshalBinary()
			skb, _ := sk.MarshalBinary()
			if !bytes.Equal(pkb, rpk) || !bytes.Equal(skb, rsk) {
				vlib.Report(t, "C01/hpke-derivation/"+s.Name()+"/key", fmt.Sprintf("seed=%x: DeriveKeyPair gives pk=%.40x… sk=%.20x…, RFC 9180 gives pk=%.40x… sk=%.20x…", seed, pkb, skb, rpk, rsk))
				return
			}
			rss, renc, rerr := ref.Encap(rpk, eseed)
			ct, ss, err := s.EncapsulateDeterministically(pk, eseed)
			if (err == nil) != (rerr == nil) || (err == nil && (!bytes.Equal(ct, renc) || !bytes.Equal(ss, rss))) {
				vlib.Report(t, "C01/hpke-derivation/"+s.Name()+"/encapsulation", fmt.Sprintf("seed=%x eseed=%x: err=%v (reference %v), enc/ss equal the reference: %v/%v", seed, eseed, err, rerr, bytes.Equal(ct, renc), bytes.Equal(ss, rss)))
				return
			}
			vlib.NonTrivial(sub, "", seed, eseed)
			vlib.Sample(sub, "ref", fmt.Sprintf("%s seed=%x…: key pair, enc and shared secret equal ref/hpke", s.Name(), seed[:4]))
		})
	}
}
