//go:build verif

package c01

import (
	"bytes"
	"fmt"
	"sync"
	"sync/atomic"
	"testing"

	"github.com/cloudflare/circl/zz_verif/vlib"
	"pgregory.net/rapid"
)

// TestC01Concurrent: a key pair used from several goroutines at once. Encapsulation, decapsulation and
// serialisation only read the key, so whatever the interleaving each result must be the one the same
// call gives when nothing else runs: the encapsulation is the seed-determined one and the honest
// ciphertext decapsulates to the honest secret. One goroutine keeps serialising both keys while the
// others encapsulate and decapsulate; the expected values are computed first, sequentially, and also
// on a second key pair derived from the same seed that is never shared.
func TestC01Concurrent(t *testing.T) {
	defer vlib.Done()
	for _, si := range allSchemes() {
		si := si
		s := si.s
		name := s.Name()
		t.Run(name, func(t *testing.T) {
			sub := "concurrent/" + name
			vlib.Check(t, vlib.N(3, 20), func(t *rapid.T) {
				kseed := vlib.EdgeBytes(t, s.SeedSize(), "kseed")
				n := rapid.IntRange(24, 64).Draw(t, "n") / si.cost
				if n < 6 {
					n = 6
				}
				workers := rapid.IntRange(2, 6).Draw(t, "workers")
				marshallers := rapid.IntRange(1, 2).Draw(t, "marshallers")
				vlib.Eval(sub)
				pk, sk := s.DeriveKeyPair(kseed)
				pkRef, skRef := s.DeriveKeyPair(kseed)
				pkb, _ := pkRef.MarshalBinary()
				skb, _ := skRef.MarshalBinary()
				eseeds := make([][]byte, n)
				cts := make([][]byte, n)
				sss := make([][]byte, n)
				for i := range eseeds {
					eseeds[i] = make([]byte, s.EncapsulationSeedSize())
					vlib.ExpandInto(eseeds[i], vlib.Hash64(kseed, []byte{byte(i), byte(i >> 8)}))
					var err error
					cts[i], sss[i], err = s.EncapsulateDeterministically(pkRef, eseeds[i])
					must(t, err, "EncapsulateDeterministically")
				}
				var stop atomic.Bool
				var mu sync.Mutex
				var bad []string
				note := func(f string, a ...interface{}) {
					mu.Lock()
					if len(bad) < 4 {
						bad = append(bad, fmt.Sprintf(f, a...))
					}
					mu.Unlock()
				}
				var wgM, wgW sync.WaitGroup
				for m := 0; m < marshallers; m++ {
					wgM.Add(1)
					go func() {
						defer wgM.Done()
						for !stop.Load() {
							b1, e1 := pk.MarshalBinary()
							b2, e2 := sk.MarshalBinary()
							if e1 != nil || e2 != nil || !bytes.Equal(b1, pkb) || !bytes.Equal(b2, skb) {
								note("MarshalBinary of the shared key differs from the sequential result (errors %v %v)", e1, e2)
								return
							}
						}
					}()
				}
				for w := 0; w < workers; w++ {
					w := w
					wgW.Add(1)
					go func() {
						defer wgW.Done()
						for i := w; i < n; i += workers {
							var ct, ss, got []byte
							var err, err2 error
							if p, st := vlib.Catch(func() {
								ct, ss, err = s.EncapsulateDeterministically(pk, eseeds[i])
								got, err2 = s.Decapsulate(sk, cts[i])
							}); p != nil {
								note("panic %v\n%s", p, st)
								return
							}
							if err != nil || !bytes.Equal(ct, cts[i]) || !bytes.Equal(ss, sss[i]) {
								note("encapsulation %d with seed %x on the shared public key: err=%v, ciphertext as sequential=%v, secret as sequential=%v", i, eseeds[i], err, bytes.Equal(ct, cts[i]), bytes.Equal(ss, sss[i]))
							}
							if err2 != nil || !bytes.Equal(got, sss[i]) {
								note("decapsulation %d of the honest ciphertext with the shared private key: err=%v, honest secret=%v", i, err2, bytes.Equal(got, sss[i]))
							}
						}
					}()
				}
				wgW.Wait()
				stop.Store(true)
				wgM.Wait()
				if len(bad) > 0 {
					vlib.Report(t, "C01/concurrent/"+name+"/differs-from-sequential", fmt.Sprintf("kseed %x, %d workers, %d serialising goroutines:\n%s", kseed, workers, marshallers, bad))
					return
				}
				// the keys themselves are unchanged
				b1, _ := pk.MarshalBinary()
				b2, _ := sk.MarshalBinary()
				if !bytes.Equal(b1, pkb) || !bytes.Equal(b2, skb) {
					vlib.Report(t, "C01/concurrent/"+name+"/key-changed", fmt.Sprintf("kseed %x: after the concurrent phase the key bytes differ from the derived ones", kseed))
					return
				}
				vlib.NonTrivial(sub, "shared-key-pair", kseed, []byte{byte(n), byte(workers), byte(marshallers)})
				vlib.Sample(sub, "plan", fmt.Sprintf("scheme=%s kseed=%s n=%d workers=%d marshallers=%d", name, vlib.Hex(kseed), n, workers, marshallers))
			})
		})
	}
}
