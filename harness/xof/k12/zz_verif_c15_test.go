//go:build verif

// C15, white-box part: KangarooTwelve with lanes ∈ {1, 2, 4} through the
// unexported constructor, compared with ref/keccak.KT128 on Write / Read /
// Clone / Reset histories, plus the structural invariant of the leaf/stalk
// bookkeeping after every step.
package k12

import (
	"bytes"
	"fmt"
	"testing"

	"github.com/cloudflare/circl/zz_verif/c15/xofsm"
	"github.com/cloudflare/circl/zz_verif/ref/keccak"
	"github.com/cloudflare/circl/zz_verif/vlib"
	"pgregory.net/rapid"
)

type zzInst struct{ s *State }

func (a zzInst) Write(p []byte) (int, error) { return a.s.Write(p) }
func (a zzInst) Read(p []byte) (int, error)  { return a.s.Read(p) }
func (a zzInst) Reset()                      { a.s.Reset() }
func (a zzInst) CloneInst() xofsm.Inst       { c := a.s.Clone(); return zzInst{&c} }

func TestZZC15_00Selftest(t *testing.T) {
	defer vlib.Done()
	if err := keccak.SelfTest(vlib.Harness, false); err != nil {
		vlib.Selftest("ref/keccak", "FAIL: "+err.Error())
		t.Fatalf("SELFTEST-FAIL ref/keccak: %v", err)
	}
	vlib.Selftest("ref/keccak", "ok")
}

// zzInvariant is the bookkeeping invariant of State while absorbing L bytes:
// the first 8192 bytes went to the stalk, the rest is (chunk hashes absorbed)*8192 + offset.
func zzInvariant(in xofsm.Inst, L int, squeezing bool) string {
	s := in.(zzInst).s
	if squeezing {
		return ""
	}
	wantTodo := chunkSize - L
	if wantTodo < 0 {
		wantTodo = 0
	}
	if s.initialTodo != wantTodo {
		return fmt.Sprintf("after absorbing %d bytes initialTodo=%d, expected %d", L, s.initialTodo, wantTodo)
	}
	if L <= chunkSize {
		if s.buf != nil || s.chunk != 0 || s.offset != 0 {
			return fmt.Sprintf("after absorbing %d ≤ 8192 bytes: buf!=nil=%v chunk=%d offset=%d", L, s.buf != nil, s.chunk, s.offset)
		}
		return ""
	}
	rest := L - chunkSize
	if s.buf == nil {
		return fmt.Sprintf("after absorbing %d > 8192 bytes buf is nil", L)
	}
	lanes := int(s.lanes)
	if int(s.chunk)*chunkSize+s.offset != rest {
		return fmt.Sprintf("lanes=%d: after absorbing %d bytes chunk=%d offset=%d: chunk*8192+offset=%d, expected %d", lanes, L, s.chunk, s.offset, int(s.chunk)*chunkSize+s.offset, rest)
	}
	if lanes == 1 {
		if s.offset >= chunkSize || len(s.buf) != 0 || s.leaf == nil {
			return fmt.Sprintf("lanes=1: offset=%d len(buf)=%d leaf=nil:%v", s.offset, len(s.buf), s.leaf == nil)
		}
	} else if s.offset >= lanes*chunkSize || len(s.buf) != lanes*chunkSize || int(s.chunk)%lanes != 0 {
		return fmt.Sprintf("lanes=%d: offset=%d len(buf)=%d chunk=%d", lanes, s.offset, len(s.buf), s.chunk)
	}
	return ""
}

var zzCtxLens = []int{0, 1, 2, 255, 256, 257, 300, 8180, 8189, 8190, 8191, 8192, 8193, 16384, 32768, 65536, 65537}

func TestZZC15Histories(t *testing.T) {
	defer vlib.Done()
	for _, lanes := range []byte{1, 2, 4} {
		lanes := lanes
		sub := fmt.Sprintf("k12/lanes=%d", lanes)
		t.Run(sub, func(t *testing.T) {
			vlib.Check(t, vlib.N(330, 2000), func(t *rapid.T) {
				var n int
				switch rapid.IntRange(0, 3).Draw(t, "ctxkind") {
				case 0:
					n = 0
				case 1, 2:
					n = rapid.SampledFrom(zzCtxLens).Draw(t, "ctxlen")
				default:
					n = rapid.IntRange(0, 600).Draw(t, "ctxlen")
				}
				ctx := make([]byte, n)
				if n > 0 {
					vlib.FillRandom(t, ctx, "ctx")
				}
				switch {
				case n == 0:
					vlib.Class(sub, "ctx:len0")
				case n == 256 || n == 65536:
					vlib.Class(sub, "ctx:length_encode-with-zero-byte")
				case n > 8192:
					vlib.Class(sub, "ctx:>8192")
				}
				xofsm.Run(t, xofsm.Spec{
					Sub: sub, Key: "C15/" + sub,
					New:  func() xofsm.Inst { s := newDraft10(ctx, lanes); return zzInst{&s} },
					Ref:  func(m []byte, n int) []byte { return keccak.KT128(m, ctx, n) },
					Rate: 168, Big: 330, Lanes: int(lanes), Tail: n + len(keccak.LengthEncode(uint64(n))),
					Invariant: zzInvariant,
				})
			})
		})
	}
}

func TestZZC15Split2(t *testing.T) {
	defer vlib.Done()
	for _, lanes := range []byte{1, 2, 4} {
		lanes := lanes
		xofsm.Sweep(t, xofsm.OneShot{
			Name: fmt.Sprintf("k12/lanes=%d", lanes), Rate: 168, Lanes: int(lanes), Tail: 1,
			Mk:   func() xofsm.Inst { s := newDraft10(nil, lanes); return zzInst{&s} },
			Ref:  func(m []byte, n int) []byte { return keccak.KT128(m, nil, n) },
			Olen: 40,
		})
		if t.Failed() {
			return
		}
	}
}

// TestZZC15ManyChunks: 255..257 leaves (length_encode(256) = 01 00 02 has a zero byte).
func TestZZC15ManyChunks(t *testing.T) {
	defer vlib.Done()
	idx := 0
	for _, lanes := range []byte{1, 2, 4} {
		sub := fmt.Sprintf("k12/lanes=%d/many-chunks", lanes)
		for i, c := range []struct{ leaves, extra int }{{255, 0}, {256, 0}, {256, 1}, {257, -1}} {
			idx++
			if idx%vlib.NShards != vlib.Shard {
				continue
			}
			L := chunkSize*(1+c.leaves) + c.extra - 1
			msg := make([]byte, L)
			vlib.ExpandInto(msg, uint64(vlib.Seed)*37+uint64(i))
			want := keccak.KT128(msg, nil, 48)
			s := newDraft10(nil, lanes)
			got := make([]byte, 48)
			step := 90001 + chunkSize*i*int(lanes)
			for off := 0; off < L; off += step {
				e := off + step
				if e > L {
					e = L
				}
				_, _ = s.Write(msg[off:e])
			}
			_, _ = s.Read(got)
			vlib.Eval(sub)
			if !bytes.Equal(got, want) {
				if !vlib.ReportDirect(t, fmt.Sprintf("C15/k12/lanes=%d/stream-many-chunks", lanes), fmt.Sprintf("|M|=%d (≈%d leaves, chunk counter %d): got %x want %x", L, c.leaves, s.chunk, got, want), map[string]interface{}{"L": L, "lanes": lanes}) {
					return
				}
				continue
			}
			vlib.NonTrivial(sub, fmt.Sprintf("leaves≈%d", c.leaves), []byte(fmt.Sprint(L, lanes, vlib.Seed)))
		}
	}
}
