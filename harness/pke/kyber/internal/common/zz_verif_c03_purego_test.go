//go:build verif && (!amd64 || purego)

package common

// vc03PureGo: this build uses the wrappers of generic.go (no assembly dispatch).
const vc03PureGo = true
