//go:build verif

// C03 white-box sweeps of the Kyber/ML-KEM helper functions over their
// documented domains, against exact definitions and the independent
// reference zz_verif/ref/mlkem.
package common

import (
	"bytes"
	"fmt"
	"testing"

	"github.com/cloudflare/circl/zz_verif/ref/mlkem"
	"github.com/cloudflare/circl/zz_verif/vlib"
	"golang.org/x/sys/cpu"
)

const vc03Q = 3329

func vc03SelfTest(t *testing.T) bool {
	info, err := mlkem.SelfTest(vlib.Harness+"/zz_verif/c03/testdata/acvp_mlkem_subset.json.gz", false)
	if err != nil {
		vlib.Selftest("ref/mlkem", "FAIL: "+err.Error())
		t.Fatalf("SELFTEST-FAIL ref/mlkem: %v", err)
		return false
	}
	vlib.Selftest("ref/mlkem(whitebox)", "ok: "+info)
	return true
}

func vc03Mod(x int64) int {
	r := int(x % vc03Q)
	if r < 0 {
		r += vc03Q
	}
	return r
}

// vc03Backends runs f once per arithmetic back-end of the polynomial
// routines: generic Go always, AVX2 assembly when the CPU has it (the
// dispatch in amd64.go reads cpu.X86.HasAVX2 at call time).
func vc03Backends(f func(name string)) {
	if vc03PureGo {
		// -tags purego (or not amd64): the exported methods are the thin wrappers of generic.go
		f("purego")
		return
	}
	orig := cpu.X86.HasAVX2
	defer func() { cpu.X86.HasAVX2 = orig }()
	cpu.X86.HasAVX2 = false
	f("generic")
	if orig {
		cpu.X86.HasAVX2 = true
		f("avx2")
	} else {
		vlib.Note("C03 white-box: AVX2 not available in this process (config " + vlib.Config + "); only the generic back-end was swept")
	}
}

// ---------------------------------------------------------------------------
// scalar field helpers

func TestVC03Field(t *testing.T) {
	defer vlib.Done()
	if vlib.Shard != 0 {
		t.Skip("exhaustive sweep runs on shard 0 only")
	}

	// barrettReduce: "Given any x, compute 0 <= y <= q with x = y (mod q)";
	// "barrettReduce(x) = q != 0 ... if and only if x = -nq for some positive integer n".
	sub := "wb/barrettReduce"
	for xi := -32768; xi <= 32767; xi++ {
		x := int16(xi)
		y := barrettReduce(x)
		want := vc03Mod(int64(xi))
		if xi < 0 && xi%vc03Q == 0 {
			want = vc03Q
		}
		if int(y) != want {
			vlib.ReportDirect(t, "C03/wb/barrettReduce", fmt.Sprintf("barrettReduce(%d) = %d, documented result %d", x, y, want), map[string]interface{}{"x": xi})
			break
		}
	}
	vlib.EvalN(sub, 65536)
	vlib.Exhaustive("barrettReduce over all int16", 65536, "result in [0,q], congruent, = q exactly for negative multiples of q")

	// toMont: "Given any x, returns x R mod q where R=2^16" (as a montReduce output: -q < y < q).
	sub = "wb/toMont"
	for xi := -32768; xi <= 32767; xi++ {
		y := toMont(int16(xi))
		if !(int(y) > -vc03Q && int(y) < vc03Q) || vc03Mod(int64(y)) != vc03Mod(int64(xi)<<16) {
			vlib.ReportDirect(t, "C03/wb/toMont", fmt.Sprintf("toMont(%d) = %d, want a value in (-q,q) congruent to %d", xi, y, vc03Mod(int64(xi)<<16)), map[string]interface{}{"x": xi})
			break
		}
	}
	vlib.EvalN(sub, 65536)
	vlib.Exhaustive("toMont over all int16", 65536, "result in (-q,q) and congruent to x*2^16")

	// csubq: "Returns x if x < q and x - q otherwise. Assumes x >= -29439."
	sub = "wb/csubq"
	n := int64(0)
	for xi := -29439; xi <= 32767; xi++ {
		y := csubq(int16(xi))
		want := xi
		if xi >= vc03Q {
			want = xi - vc03Q
		}
		if int(y) != want {
			vlib.ReportDirect(t, "C03/wb/csubq", fmt.Sprintf("csubq(%d) = %d, documented result %d", xi, y, want), map[string]interface{}{"x": xi})
			break
		}
		n++
	}
	vlib.EvalN(sub, n)
	vlib.Exhaustive("csubq over its documented domain [-29439, 32767]", n, "x if x<q else x-q")
}

// montReduce: "Given -2^15 q <= x < 2^15 q, returns -q < y < q with x 2^-16 = y (mod q)".
// The whole domain (218 169 344 values) is swept in both tiers, split by shard.
func TestVC03MontReduce(t *testing.T) {
	defer vlib.Done()
	sub := "wb/montReduce"
	lo, hi := int64(-32768)*vc03Q, int64(32768)*vc03Q
	size := hi - lo
	a := lo + size*int64(vlib.Shard)/int64(vlib.NShards)
	b := lo + size*int64(vlib.Shard+1)/int64(vlib.NShards)
	// y*2^16 = x (mod q)  <=>  (y*2^16 - x) mod q == 0; keep a running residue of x to avoid a division per step
	xr := vc03Mod(a)
	for x := a; x < b; x++ {
		y := int(montReduce(int32(x)))
		yr := (y*65536)%vc03Q - xr
		if y <= -vc03Q || y >= vc03Q || yr%vc03Q != 0 {
			vlib.ReportDirect(t, "C03/wb/montReduce", fmt.Sprintf("montReduce(%d) = %d: not in (-q,q) or not congruent to x*2^-16", x, y), map[string]interface{}{"x": x})
			break
		}
		xr++
		if xr == vc03Q {
			xr = 0
		}
	}
	vlib.EvalN(sub, b-a)
	if vlib.Shard == 0 {
		vlib.Exhaustive("montReduce over its documented domain [-2^15 q, 2^15 q)", size, "all shards together; result in (-q,q) and y*2^16 = x (mod q)")
	}
}

// ---------------------------------------------------------------------------
// compression and packing

func vc03PackBits(d int, vals *[256]int) []byte {
	out := make([]byte, 32*d)
	for i := 0; i < 256; i++ {
		for j := 0; j < d; j++ {
			if (vals[i]>>uint(j))&1 == 1 {
				bit := i*d + j
				out[bit/8] |= 1 << uint(bit%8)
			}
		}
	}
	return out
}

func TestVC03Compress(t *testing.T) {
	defer vlib.Done()
	if vlib.Shard != 0 {
		t.Skip("exhaustive sweep runs on shard 0 only")
	}
	if !vc03SelfTest(t) {
		return
	}
	// Compress_d: every x in [0,q) at every one of the 256 positions: polynomial j has
	// p[i] = (j + 13 i) mod q, so position i sees every value once as j runs over [0,q).
	for _, d := range []int{1, 4, 5, 10, 11} {
		sub := fmt.Sprintf("wb/Compress_%d", d)
		bad := false
		for j := 0; j < vc03Q && !bad; j++ {
			var p Poly
			var want [256]int
			for i := 0; i < 256; i++ {
				x := (j + 13*i) % vc03Q
				p[i] = int16(x)
				want[i] = mlkem.Compress(d, x)
			}
			wb := vc03PackBits(d, &want)
			got := make([]byte, 32*d)
			if d == 1 {
				p.CompressMessageTo(got)
			} else {
				p.CompressTo(got, d)
			}
			if !bytes.Equal(got, wb) {
				// locate the coefficient
				gv := mlkem.ByteDecodeRaw(d, got)
				for i := 0; i < 256; i++ {
					if gv[i] != want[i] {
						vlib.ReportDirect(t, fmt.Sprintf("C03/wb/Compress_%d", d), fmt.Sprintf("Compress_%d(%d) at position %d: circl %d, exact round(2^d/q*x) mod 2^d = %d", d, p[i], i, gv[i], want[i]), map[string]interface{}{"d": d, "x": int(p[i]), "pos": i})
						bad = true
						break
					}
				}
				if !bad {
					vlib.ReportDirect(t, fmt.Sprintf("C03/wb/Compress_%d", d), "packed bytes differ although all fields agree", map[string]interface{}{"d": d, "j": j})
					bad = true
				}
			}
		}
		vlib.EvalN(sub, int64(vc03Q)*256)
		vlib.Exhaustive(fmt.Sprintf("Compress_%d: every x in [0,q) at every one of the 256 coefficient positions", d), int64(vc03Q)*256, "against floor((2^(d+1) x + q)/(2q)) mod 2^d and bit-exact packing")
	}
	// Decompress_d: every field value at every position
	for _, d := range []int{1, 4, 5, 10, 11} {
		sub := fmt.Sprintf("wb/Decompress_%d", d)
		m := 1 << uint(d)
		bad := false
		for j := 0; j < m && !bad; j++ {
			var f [256]int
			for i := 0; i < 256; i++ {
				f[i] = (j + 7*i) % m
			}
			var p Poly
			for i := range p {
				p[i] = -1
			}
			if d == 1 {
				p.DecompressMessage(vc03PackBits(d, &f))
			} else {
				p.Decompress(vc03PackBits(d, &f), d)
			}
			for i := 0; i < 256; i++ {
				if int(p[i]) != mlkem.Decompress(d, f[i]) {
					vlib.ReportDirect(t, fmt.Sprintf("C03/wb/Decompress_%d", d), fmt.Sprintf("Decompress_%d(%d) at position %d: circl %d, exact round(q/2^d*y) = %d", d, f[i], i, p[i], mlkem.Decompress(d, f[i])), map[string]interface{}{"d": d, "y": f[i], "pos": i})
					bad = true
					break
				}
			}
		}
		vlib.EvalN(sub, int64(m)*256)
		vlib.Exhaustive(fmt.Sprintf("Decompress_%d: every y in [0,2^d) at every one of the 256 positions", d), int64(m)*256, "against floor((2 q y + 2^d)/2^(d+1)); result normalized")
	}
}

func TestVC03Pack(t *testing.T) {
	defer vlib.Done()
	if vlib.Shard != 0 {
		t.Skip("exhaustive sweep runs on shard 0 only")
	}
	vc03Backends(func(be string) {
		// Pack: normalized, tangled input; every value in [0,q) at every position
		sub := "wb/Pack/" + be
		bad := false
		for j := 0; j < vc03Q && !bad; j++ {
			var p Poly
			var vals [256]int
			for i := 0; i < 256; i++ {
				vals[i] = (j + 13*i) % vc03Q
				p[i] = int16(vals[i])
			}
			p.Tangle()
			got := make([]byte, PolySize)
			p.Pack(got)
			if !bytes.Equal(got, vc03PackBits(12, &vals)) {
				vlib.ReportDirect(t, "C03/wb/Pack/"+be, fmt.Sprintf("Pack of the polynomial p[i]=(%d+13i) mod q differs from ByteEncode_12", j), map[string]interface{}{"j": j, "backend": be})
				bad = true
			}
		}
		vlib.EvalN(sub, int64(vc03Q)*256)
		// Unpack: every 12-bit value at every position; "0 <= p[i] < 4096", tangled
		sub = "wb/Unpack/" + be
		bad = false
		for j := 0; j < 4096 && !bad; j++ {
			var vals [256]int
			for i := 0; i < 256; i++ {
				vals[i] = (j + 17*i) % 4096
			}
			var p Poly
			p.Unpack(vc03PackBits(12, &vals))
			p.Detangle()
			for i := 0; i < 256; i++ {
				if int(p[i]) != vals[i] {
					vlib.ReportDirect(t, "C03/wb/Unpack/"+be, fmt.Sprintf("Unpack: coefficient %d is %d, encoded %d", i, p[i], vals[i]), map[string]interface{}{"j": j, "pos": i, "backend": be})
					bad = true
					break
				}
			}
		}
		vlib.EvalN(sub, 4096*256)
		if be == "generic" || be == "purego" {
			vlib.Exhaustive("Poly.Pack: every value in [0,q) at every position; Poly.Unpack: every 12-bit value at every position", int64(vc03Q)*256+4096*256, "each arithmetic back-end (Tangle/Detangle included)")
		}
	})
}

// ---------------------------------------------------------------------------
// vector routines: Normalize / BarrettReduce over all int16, Add / Sub

func TestVC03PolyReduce(t *testing.T) {
	defer vlib.Done()
	if vlib.Shard != 0 {
		t.Skip("exhaustive sweep runs on shard 0 only")
	}
	vc03Backends(func(be string) {
		sub := "wb/Normalize+BarrettReduce/" + be
		for blk := 0; blk < 256; blk++ {
			var p, q Poly
			for i := 0; i < 256; i++ {
				// each block holds 256 consecutive values, rotated so that lanes see different values
				p[(i+blk)%256] = int16(-32768 + blk*256 + i)
			}
			q = p
			n := p
			n.Normalize()
			b := p
			b.BarrettReduce()
			for i := 0; i < 256; i++ {
				x := int(q[i])
				wantN := vc03Mod(int64(x))
				wantB := wantN
				if x < 0 && x%vc03Q == 0 {
					wantB = vc03Q
				}
				if int(n[i]) != wantN {
					vlib.ReportDirect(t, "C03/wb/Normalize/"+be, fmt.Sprintf("Normalize: coefficient %d at position %d becomes %d, want %d", x, i, n[i], wantN), map[string]interface{}{"x": x, "pos": i, "backend": be})
					return
				}
				// BarrettReduce documents only "each coefficient is in {0..q}" and congruence
				if int(b[i]) < 0 || int(b[i]) > vc03Q || vc03Mod(int64(b[i])) != wantN {
					vlib.ReportDirect(t, "C03/wb/BarrettReduce/"+be, fmt.Sprintf("BarrettReduce: coefficient %d at position %d becomes %d", x, i, b[i]), map[string]interface{}{"x": x, "pos": i, "backend": be})
					return
				}
				if int(b[i]) == vc03Q && wantB != vc03Q {
					vlib.Class(sub, "barrett=q-where-scalar-gives-0")
				}
			}
		}
		vlib.EvalN(sub, 65536)
		if be == "generic" || be == "purego" {
			vlib.Exhaustive("Poly.Normalize and Poly.BarrettReduce over all int16 coefficient values", 65536, "each arithmetic back-end")
		}
		// Add / Sub without overflow
		sub = "wb/Add+Sub/" + be
		edge := []int{0, 1, -1, vc03Q, -vc03Q, vc03Q - 1, 1664, -1665, 16383, -16384, 9 * vc03Q / 2, 4095}
		for r := 0; r < 64; r++ {
			var a, b2, s, d Poly
			buf := make([]byte, 1024)
			vlib.ExpandInto(buf, uint64(vlib.Seed)*1000+uint64(r))
			for i := 0; i < 256; i++ {
				if r%2 == 0 {
					a[i] = int16(edge[int(buf[2*i])%len(edge)])
					b2[i] = int16(edge[int(buf[2*i+1])%len(edge)])
				} else {
					a[i] = int16(int(buf[4*i])|int(buf[4*i+1])<<8) >> 1
					b2[i] = int16(int(buf[4*i+2])|int(buf[4*i+3])<<8) >> 1
				}
			}
			s.Add(&a, &b2)
			d.Sub(&a, &b2)
			for i := 0; i < 256; i++ {
				if int(s[i]) != int(a[i])+int(b2[i]) || int(d[i]) != int(a[i])-int(b2[i]) {
					vlib.ReportDirect(t, "C03/wb/AddSub/"+be, fmt.Sprintf("position %d: %d (+/-) %d gives %d / %d", i, a[i], b2[i], s[i], d[i]), map[string]interface{}{"r": r, "pos": i, "backend": be})
					return
				}
			}
			vlib.EvalN(sub, 256)
		}
	})
}

// ---------------------------------------------------------------------------
// CBD_2 / CBD_3

func TestVC03CBD(t *testing.T) {
	defer vlib.Done()
	if !vc03SelfTest(t) {
		return
	}
	for _, eta := range []int{2, 3} {
		sub := fmt.Sprintf("wb/CBD_%d", eta)
		// class = (coefficient index within the machine word the implementation slices, value of the 2*eta-bit group)
		perWord := 16
		if eta == 3 {
			perWord = 8
		}
		nClasses := perWord << uint(2*eta)
		seen := make(map[int]bool)
		polys := 0
		for it := 0; it < 4000; it++ {
			if len(seen) == nClasses && it >= vlib.N(300, 2000) {
				break
			}
			seed := make([]byte, 32)
			vlib.ExpandInto(seed, uint64(vlib.Seed)*7919+uint64(vlib.Shard)*104729+uint64(it)*2+uint64(eta))
			nonce := uint8(it * 37)
			switch it {
			case 0:
				for i := range seed {
					seed[i] = 0
				}
			case 1:
				for i := range seed {
					seed[i] = 0xff
				}
			}
			stream := mlkem.PRF(eta, seed, nonce)
			want := mlkem.SamplePolyCBD(eta, stream)
			var p Poly
			if it%2 == 0 {
				p.DeriveNoise(seed, nonce, eta)
			} else if eta == 2 {
				p.DeriveNoise2(seed, nonce)
			} else {
				p.DeriveNoise3(seed, nonce)
			}
			bits := mlkem.BytesToBits(stream)
			for i := 0; i < 256; i++ {
				g := 0
				for j := 0; j < 2*eta; j++ {
					g |= bits[2*eta*i+j] << uint(j)
				}
				seen[(i%perWord)<<uint(2*eta)|g] = true
				if int(p[i]) < -eta || int(p[i]) > eta || vc03Mod(int64(p[i])) != want[i] {
					vlib.ReportDirect(t, fmt.Sprintf("C03/wb/CBD_%d", eta), fmt.Sprintf("seed %x nonce %d coefficient %d (bit group %0*b): circl %d, bit-by-bit definition %d (mod q)", seed, nonce, i, 2*eta, g, p[i], want[i]), map[string]interface{}{"seed": fmt.Sprintf("%x", seed), "nonce": nonce, "eta": eta})
					return
				}
			}
			polys++
			vlib.Eval(sub)
			vlib.NonTrivialH(sub, "", vlib.Hash64(seed, []byte{nonce}))
		}
		if len(seen) == nClasses {
			vlib.Class(sub, fmt.Sprintf("process covered all %d (word position, bit group) classes", nClasses))
		}
		if len(seen) != nClasses {
			vlib.Note(fmt.Sprintf("CBD_%d: only %d of %d classes generated", eta, len(seen), nClasses))
			t.Fatalf("SELFTEST-FAIL CBD_%d: only %d of %d (position, bit-group) classes generated", eta, len(seen), nClasses)
		}
		vlib.Exhaustive(fmt.Sprintf("CBD_%d: every (coefficient position within the sliced word, 2*eta-bit group value) class", eta), int64(nClasses), fmt.Sprintf("covered by %d PRF streams; each whole polynomial compared with the bit-by-bit definition", polys))
	}
}

// ---------------------------------------------------------------------------
// NTT / InvNTT / MulHat against the defining sums and schoolbook multiplication

func vc03FromRef(f *mlkem.Poly) Poly {
	var p Poly
	for i := range p {
		p[i] = int16(f[i])
	}
	return p
}

func vc03ToRef(p *Poly) *mlkem.Poly {
	var f mlkem.Poly
	for i := range p {
		f[i] = vc03Mod(int64(p[i]))
	}
	return &f
}

// vc03Mul multiplies a and b (coefficients in absolute value <= q, standard
// order) the way cpapke.go does, respecting each routine's documented bounds:
// NTT (|.|<=q in, <=7q out), BarrettReduce (-> [0,q]), MulHat (products <
// 2^15 q; out <= 2q), BarrettReduce, InvNTT (|.|<=q in; multiplies by R, which
// cancels the R^-1 of MulHat), Normalize.
func vc03Mul(a, b Poly) Poly {
	a.NTT()
	a.BarrettReduce()
	b.NTT()
	b.BarrettReduce()
	var p Poly
	p.MulHat(&a, &b)
	p.BarrettReduce()
	p.InvNTT()
	p.Normalize()
	return p
}

func vc03BoundaryPoly(kind int, seed uint64) Poly {
	var p Poly
	buf := make([]byte, 512)
	vlib.ExpandInto(buf, seed)
	edge := []int{0, 1, -1, vc03Q, -vc03Q, vc03Q - 1, -(vc03Q - 1), 1664, 1665, -1664, -1665, 2, 832, 2497}
	for i := range p {
		r := int(buf[2*i]) | int(buf[2*i+1])<<8
		switch kind {
		case 0: // all q
			p[i] = vc03Q
		case 1: // all -q
			p[i] = -vc03Q
		case 2: // alternating +-q
			p[i] = int16(vc03Q * (1 - 2*(i%2)))
		case 3: // all q-1
			p[i] = vc03Q - 1
		case 4: // edge values at random places
			p[i] = int16(edge[r%len(edge)])
		case 5: // uniform in [-q, q]
			p[i] = int16(r%(2*vc03Q+1) - vc03Q)
		case 6: // sparse
			if r%16 == 0 {
				p[i] = int16(edge[(r/16)%len(edge)])
			}
		case 7: // small noise, like CBD output
			p[i] = int16(r%7 - 3)
		}
	}
	return p
}

// vc03SignPattern returns the polynomial whose coefficient i is
// sign * mag * (-1)^popcount(i & mask): the inputs for which the additions of
// the butterfly networks all accumulate in the same direction (worst case for
// the lazy reductions). variant selects the magnitude: q, q-1, or q on a subset.
func vc03SignPattern(mask, sign, variant int) Poly {
	var p Poly
	for i := range p {
		v := vc03Q
		switch variant {
		case 1:
			v = vc03Q - 1
		case 2:
			if i%2 == 1 {
				v = 0
			}
		case 3:
			if i%2 == 0 {
				v = 0
			}
		}
		pc := 0
		for b := i & mask; b != 0; b &= b - 1 {
			pc++
		}
		if pc%2 == 1 {
			v = -v
		}
		p[i] = int16(sign * v)
	}
	return p
}

func TestVC03NTT(t *testing.T) {
	defer vlib.Done()
	if !vc03SelfTest(t) {
		return
	}
	vc03Backends(func(be string) {
		// (a) all 65 536 monomial pairs c1 X^i * c2 X^j, split by shard on i
		sub := "wb/NTT-mul-monomials/" + be
		coefs := []int{1, -1, vc03Q - 1, 1664, 1665, -1665, 2, vc03Q, 17, -vc03Q}
		cnt := int64(0)
		for i := 0; i < 256; i++ {
			if i%vlib.NShards != vlib.Shard {
				continue
			}
			for j := 0; j < 256; j++ {
				c1 := coefs[(i*7+j)%len(coefs)]
				c2 := coefs[(i+j*3)%len(coefs)]
				var a, b Poly
				a[i] = int16(c1)
				b[j] = int16(c2)
				got := vc03Mul(a, b)
				k := i + j
				v := vc03Mod(int64(c1) * int64(c2))
				if k >= 256 {
					k -= 256
					v = vc03Mod(int64(-v))
				}
				var want Poly
				want[k] = int16(v)
				if got != want {
					vlib.ReportDirect(t, "C03/wb/NTT-mul/"+be, fmt.Sprintf("(%d X^%d)*(%d X^%d) through NTT/MulHat/InvNTT: want %d X^%d, got a different polynomial (coefficient %d is %d)", c1, i, c2, j, v, k, k, got[k]), map[string]interface{}{"i": i, "j": j, "c1": c1, "c2": c2, "backend": be})
					return
				}
				cnt++
			}
		}
		vlib.EvalN(sub, cnt)
		if (be == "generic" || be == "purego") && vlib.Shard == 0 {
			vlib.Exhaustive("NTT/MulHat/InvNTT product of every monomial pair X^i * X^j (i,j < 256) with boundary coefficients", 65536, "each arithmetic back-end; all shards together; against the negacyclic rule X^256 = -1")
		}

		// (a') all 256 sign patterns x 2 polarities x 4 magnitude variants (split by shard on the mask)
		sub = "wb/NTT-sign-patterns/" + be
		for mask := 0; mask < 256; mask++ {
			if mask%vlib.NShards != vlib.Shard {
				continue
			}
			for sv := 0; sv < 8; sv++ {
				a := vc03SignPattern(mask, 1-2*(sv&1), sv>>1)
				x := a
				x.NTT()
				x.Detangle()
				y := a
				y.Tangle()
				y.InvNTT()
				inv := mlkem.InvNTT(vc03ToRef(&a))
				ok := *vc03ToRef(&x) == *mlkem.NTT(vc03ToRef(&a))
				for i := range y {
					if int(y[i]) > vc03Q || int(y[i]) < -vc03Q || vc03Mod(int64(y[i])) != vc03Mod(int64(inv[i])<<16) {
						ok = false
					}
				}
				if !ok {
					vlib.ReportDirect(t, "C03/wb/NTT-sign-pattern/"+be, fmt.Sprintf("sign pattern mask %#x polarity/variant %d: NTT or InvNTT differs from the defining sums (or leaves the documented range)", mask, sv), map[string]interface{}{"mask": mask, "sv": sv, "backend": be})
					return
				}
				vlib.Eval(sub)
			}
		}
		if (be == "generic" || be == "purego") && vlib.Shard == 0 {
			vlib.Exhaustive("NTT and InvNTT of all +-q sign-pattern polynomials (-1)^popcount(i&mask), 256 masks x 2 polarities x 4 magnitude variants", 2048, "each arithmetic back-end; all shards together; worst-case accumulation for the lazy reductions")
		}

		// (b) boundary and random polynomials: NTT against the defining sums (FIPS 203 eq. 4.12),
		// InvNTT against its inverse, products against schoolbook multiplication
		sub = "wb/NTT-vs-definition/" + be
		rounds := vlib.N(320, 1600)
		for r := 0; r < rounds; r++ {
			sd := uint64(vlib.Seed)*1000003 + uint64(vlib.Shard)*7777 + uint64(r)
			a := vc03BoundaryPoly(r%8, sd)
			b := vc03BoundaryPoly((r/8)%8, sd+0x9e3779b97f4a7c15)
			// forward
			x := a
			x.NTT()
			for i := range x {
				if int(x[i]) > 7*vc03Q || int(x[i]) < -7*vc03Q {
					vlib.ReportDirect(t, "C03/wb/NTT-bound/"+be, fmt.Sprintf("NTT output coefficient %d = %d exceeds the documented bound 7q (input kind %d)", i, x[i], r%8), map[string]interface{}{"r": r, "seed": sd, "backend": be})
					return
				}
			}
			x.Detangle()
			if *vc03ToRef(&x) != *mlkem.NTT(vc03ToRef(&a)) {
				vlib.ReportDirect(t, "C03/wb/NTT/"+be, fmt.Sprintf("NTT of boundary polynomial kind %d seed %d differs from the defining sums", r%8, sd), map[string]interface{}{"r": r, "seed": sd, "backend": be})
				return
			}
			// inverse: input |.| <= q, tangled; output = R * NTT^-1, |.| <= q
			y := a
			y.Tangle()
			y.InvNTT()
			inv := mlkem.InvNTT(vc03ToRef(&a))
			for i := range y {
				if int(y[i]) > vc03Q || int(y[i]) < -vc03Q || vc03Mod(int64(y[i])) != vc03Mod(int64(inv[i])<<16) {
					vlib.ReportDirect(t, "C03/wb/InvNTT/"+be, fmt.Sprintf("InvNTT of boundary polynomial kind %d seed %d: coefficient %d = %d, want a value in [-q,q] congruent to R*%d", r%8, sd, i, y[i], inv[i]), map[string]interface{}{"r": r, "seed": sd, "backend": be})
					return
				}
			}
			// product
			got := vc03Mul(a, b)
			want := vc03FromRef(mlkem.MulSchoolbook(vc03ToRef(&a), vc03ToRef(&b)))
			if got != want {
				vlib.ReportDirect(t, "C03/wb/NTT-mul/"+be, fmt.Sprintf("product of boundary polynomials kinds %d,%d seed %d differs from schoolbook multiplication", r%8, (r/8)%8, sd), map[string]interface{}{"r": r, "seed": sd, "backend": be})
				return
			}
			vlib.Eval(sub)
			vlib.Class(sub, fmt.Sprintf("kind=%d", r%8))
			vlib.NonTrivialH("wb/NTT-vs-definition/"+be, "", sd)
		}
	})
}

// ---------------------------------------------------------------------------
// uniform sampling: four-way vs scalar vs reference

func TestVC03Uniform(t *testing.T) {
	defer vlib.Done()
	if !vc03SelfTest(t) {
		return
	}
	sub := "wb/DeriveUniform"
	rounds := vlib.N(4000, 12000)
	diffBlocks, fourBlock := 0, 0
	for r := 0; r < rounds; r++ {
		var seed [32]byte
		vlib.ExpandInto(seed[:], uint64(vlib.Seed)*6700417+uint64(vlib.Shard)*65537+uint64(r))
		switch r {
		case 0:
			seed = [32]byte{}
		case 1:
			for i := range seed {
				seed[i] = 0xff
			}
		}
		var xs, ys [4]uint8
		var idx [2]byte
		for l := 0; l < 4; l++ {
			vlib.ExpandInto(idx[:], uint64(r)*4+uint64(l)+uint64(vlib.Seed)<<40)
			if r%3 == 0 {
				// matrix indices as used by Mat.Derive
				xs[l], ys[l] = idx[0]%4, idx[1]%4
			} else {
				xs[l], ys[l] = idx[0], idx[1]
			}
		}
		nilMask := 0
		if r%5 == 4 {
			nilMask = 1 + r/5%14 // some lanes nil, never all
		}
		var want [4]*mlkem.Poly
		var blocks [4]int
		for l := 0; l < 4; l++ {
			var used int
			want[l], used = mlkem.SampleNTT(seed[:], xs[l], ys[l])
			blocks[l] = (used + 167) / 168
		}
		// scalar
		for l := 0; l < 4; l++ {
			var p Poly
			p.DeriveUniform(&seed, xs[l], ys[l])
			p.Detangle()
			if p != vc03FromRef(want[l]) {
				vlib.ReportDirect(t, "C03/wb/DeriveUniform/scalar", fmt.Sprintf("seed %x x=%d y=%d (%d SHAKE128 blocks): DeriveUniform differs from SampleNTT", seed, xs[l], ys[l], blocks[l]), map[string]interface{}{"seed": fmt.Sprintf("%x", seed), "x": xs[l], "y": ys[l]})
				return
			}
		}
		vlib.Eval(sub)
		// four-way
		if DeriveX4Available {
			var ps [4]*Poly
			var store [4]Poly
			minB, maxB := 99, 0
			for l := 0; l < 4; l++ {
				if nilMask>>uint(l)&1 == 0 {
					ps[l] = &store[l]
					if blocks[l] < minB {
						minB = blocks[l]
					}
					if blocks[l] > maxB {
						maxB = blocks[l]
					}
				}
			}
			PolyDeriveUniformX4(ps, &seed, xs, ys)
			for l := 0; l < 4; l++ {
				if ps[l] == nil {
					if store[l] != (Poly{}) {
						vlib.ReportDirect(t, "C03/wb/DeriveUniform/x4-nil-lane", "a nil lane was written", map[string]interface{}{"seed": fmt.Sprintf("%x", seed), "lane": l})
						return
					}
					continue
				}
				p := store[l]
				p.Detangle()
				if p != vc03FromRef(want[l]) {
					cls := "same-block"
					if minB != maxB {
						cls = "lanes-finish-in-different-blocks"
					}
					vlib.ReportDirect(t, "C03/wb/DeriveUniform/x4/"+cls, fmt.Sprintf("seed %x lane %d x=%d y=%d (lane needs %d blocks; lanes need %v, nil mask %04b): PolyDeriveUniformX4 differs from SampleNTT", seed, l, xs[l], ys[l], blocks[l], blocks, nilMask), map[string]interface{}{"seed": fmt.Sprintf("%x", seed), "xs": fmt.Sprint(xs), "ys": fmt.Sprint(ys), "nilMask": nilMask})
					return
				}
			}
			vlib.Eval(sub)
			if nilMask != 0 {
				vlib.Class(sub, "x4-with-nil-lanes")
			}
			if maxB >= 4 {
				fourBlock++
				vlib.Class(sub, "x4-some-lane-needs>=4-blocks")
			}
			if minB != maxB {
				diffBlocks++
				vlib.NonTrivialH(sub, "x4-lanes-finish-in-different-SHAKE-blocks", vlib.Hash64(seed[:], xs[:], ys[:]))
				vlib.Sample(sub, "x4-lanes-finish-in-different-SHAKE-blocks", fmt.Sprintf("seed=%x xs=%v ys=%v blocks per lane=%v nil mask=%04b", seed, xs, ys, blocks, nilMask))
			} else {
				vlib.Class(sub, "x4-lanes-finish-in-same-block")
			}
		}
	}
	if !DeriveX4Available {
		vlib.Note("C03 white-box: PolyDeriveUniformX4 not available in this process (no AVX2); only the scalar sampler was compared")
		return
	}
	if diffBlocks == 0 {
		t.Fatalf("SELFTEST-FAIL DeriveUniform: the class 'lanes finish in different SHAKE blocks' is empty after %d calls", rounds)
	}
}

// ---------------------------------------------------------------------------
// generic vs AVX2 on many random polynomials of the documented input domain
// (|coefficient| <= q). The lazy reductions inside InvNTT only matter for rare
// sign patterns, so this differential sweep uses far more inputs than the
// comparison with the (slow) defining sums above.

func TestVC03BackendDiff(t *testing.T) {
	defer vlib.Done()
	if vc03PureGo || !cpu.X86.HasAVX2 {
		vlib.Note("C03 white-box: no AVX2 code in this process (config " + vlib.Config + "); generic-vs-AVX2 differential sweep skipped")
		t.Skip("no AVX2")
	}
	defer func() { cpu.X86.HasAVX2 = true }()
	sub := "wb/generic-vs-avx2"
	rounds := vlib.N(150000, 1500000)
	// splitmix64: a fixed function of (seed, shard), so the sweep is reproducible
	state := uint64(vlib.Seed)<<32 ^ uint64(vlib.Shard)<<20 ^ 0x9e3779b97f4a7c15
	next := func() uint64 {
		state += 0x9e3779b97f4a7c15
		z := state
		z = (z ^ (z >> 30)) * 0xbf58476d1ce4e5b9
		z = (z ^ (z >> 27)) * 0x94d049bb133111eb
		return z ^ (z >> 31)
	}
	for r := 0; r < rounds; r++ {
		var a Poly
		var w uint64
		pat := vc03SignPattern(int(next()&255), 1, 0)
		for i := range a {
			if i%4 == 0 {
				w = next()
			}
			v := int(w & 0xffff)
			w >>= 16
			switch r % 6 {
			case 4: // sign pattern with random magnitudes in [q/2, q]
				a[i] = int16(int(pat[i]) / vc03Q * (vc03Q/2 + v%(vc03Q/2+2)))
			case 5: // sign pattern with a few coefficients flipped
				a[i] = pat[i]
				if v%32 == 0 {
					a[i] = -a[i]
				}
			case 0:
				a[i] = int16(v%(2*vc03Q+1) - vc03Q)
			case 1:
				a[i] = int16(vc03Q * (1 - 2*(v&1)))
			case 2:
				a[i] = int16(vc03Q * (v%3 - 1))
			case 3:
				a[i] = int16(v % (vc03Q + 1))
			}
		}
		g, v := a, a
		cpu.X86.HasAVX2 = false
		g.InvNTT()
		cpu.X86.HasAVX2 = true
		v.Tangle()
		v.InvNTT()
		gn, vn := a, a
		cpu.X86.HasAVX2 = false
		gn.NTT()
		cpu.X86.HasAVX2 = true
		vn.NTT()
		vn.Detangle()
		for i := range a {
			if g[i] > vc03Q || g[i] < -vc03Q || v[i] > vc03Q || v[i] < -vc03Q || vc03Mod(int64(g[i])) != vc03Mod(int64(v[i])) {
				vlib.ReportDirect(t, "C03/wb/InvNTT/generic-vs-avx2", fmt.Sprintf("input kind %d round %d: coefficient %d is %d (generic) vs %d (AVX2); documented: equal mod q and in [-q,q]", r%6, r, i, g[i], v[i]), map[string]interface{}{"r": r, "seed": vlib.Seed, "shard": vlib.Shard})
				return
			}
			if gn[i] > 7*vc03Q || gn[i] < -7*vc03Q || vn[i] > 7*vc03Q || vn[i] < -7*vc03Q || vc03Mod(int64(gn[i])) != vc03Mod(int64(vn[i])) {
				vlib.ReportDirect(t, "C03/wb/NTT/generic-vs-avx2", fmt.Sprintf("input kind %d round %d: coefficient %d is %d (generic) vs %d (AVX2); documented: equal mod q and in [-7q,7q]", r%6, r, i, gn[i], vn[i]), map[string]interface{}{"r": r, "seed": vlib.Seed, "shard": vlib.Shard})
				return
			}
		}
	}
	vlib.EvalN(sub, int64(rounds))
	vlib.ClassN(sub, "random polynomials with |coefficient| <= q (6 distributions)", int64(rounds))
}
