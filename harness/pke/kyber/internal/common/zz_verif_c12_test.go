//go:build verif

// C12 white-box: exhaustive sweep of Kyber's 16-bit reductions (q = 3329).
package common

import (
	"fmt"
	"testing"

	"github.com/cloudflare/circl/zz_verif/vlib"
)

func c12ModQ(x int64) int64 { return ((x % 3329) + 3329) % 3329 }

func TestVerifC12KyberField(t *testing.T) {
	defer vlib.Done()
	const q = 3329
	const sub = "kyber.field"
	if Q != q || (1<<16)*169%q != 1 || (1<<16)%q != 2285 {
		t.Fatalf("SELFTEST-FAIL: constants of the Kyber reference are off")
	}
	vlib.Selftest("c12/kyber-constants", "ok")
	bad := func(fn string, x int64, detail string) bool {
		return vlib.ReportDirect(t, "C12/kyber.field/"+fn+"/wrong-result", fmt.Sprintf("%s(%d): %s", fn, x, detail), map[string]interface{}{"fn": fn, "x": x})
	}
	// barrettReduce, toMont, csubq: every int16
	for xi := -32768; xi <= 32767; xi++ {
		x := int16(xi)
		y := barrettReduce(x)
		isNegMultiple := xi < 0 && xi%q == 0
		if y < 0 || y > q || c12ModQ(int64(y)) != c12ModQ(int64(xi)) || (y == q) != isNegMultiple {
			if bad("barrettReduce", int64(xi), fmt.Sprintf("= %d", y)) {
				continue
			}
			return
		}
		m := toMont(x)
		if m <= -q || m >= q || c12ModQ(int64(m)) != c12ModQ(int64(xi)*65536) {
			if bad("toMont", int64(xi), fmt.Sprintf("= %d", m)) {
				continue
			}
			return
		}
		if xi >= -29439 {
			want := x
			if xi >= q {
				want = x - q
			}
			if got := csubq(x); got != want {
				if bad("csubq", int64(xi), fmt.Sprintf("= %d want %d", got, want)) {
					continue
				}
				return
			}
		}
	}
	if vlib.Shard == 0 {
		vlib.EvalN(sub, 3*65536-(32768-29439))
		vlib.ClassN(sub, "op=barrettReduce", 65536)
		vlib.ClassN(sub, "op=toMont", 65536)
		vlib.ClassN(sub, "op=csubq", 65536-(32768-29439))
		vlib.Exhaustive("C12 kyber barrettReduce/toMont: all 2^16 int16; csubq: all x ≥ -29439", 3*65536-(32768-29439), "each shard repeats it; counted once")
	}
	// montReduce: every x with -2^15·q ≤ x < 2^15·q, split over the shards
	lo, hi := int64(-(1<<15)*q), int64((1<<15)*q)
	n := hi - lo
	per := (n + int64(vlib.NShards) - 1) / int64(vlib.NShards)
	a := lo + per*int64(vlib.Shard)
	b := a + per
	if b > hi {
		b = hi
	}
	w := c12ModQ(c12ModQ(a) * 169) // x·2^-16 mod q, maintained incrementally
	var cnt, edge int64
	for x := a; x < b; x++ {
		y := int64(montReduce(int32(x)))
		if !(y > -q && y < q && (y == w || y == w-q)) {
			if !bad("montReduce", x, fmt.Sprintf("= %d, x·2^-16 mod q = %d", y, w)) {
				return
			}
		}
		if y == q-1 || y == -(q-1) || y == 0 {
			edge++
		}
		w += 169
		if w >= q {
			w -= q
		}
		cnt++
	}
	vlib.EvalN(sub, cnt)
	vlib.ClassN(sub, "op=montReduce", cnt)
	vlib.ClassN(sub, "montReduce result in {0, ±(q-1)}", edge)
	vlib.NonTrivialH(sub, "", uint64(vlib.Shard)) // the enumeration is one non-trivial object per shard
	if vlib.Shard == 0 {
		vlib.Exhaustive("C12 kyber montReduce: all -2^15·q ≤ x < 2^15·q", n, "all shards together")
	}
}

// Every int16 in every SIMD lane position through Poly.Normalize and
// Poly.BarrettReduce — on the dispatched back-end (AVX2 where the CPU has it)
// and on the generic code — against x mod q.
func TestVerifC12KyberPolyReduce(t *testing.T) {
	defer vlib.Done()
	const q = 3329
	const sub = "kyber.field"
	backend := "generic"
	if c12HasAVX2() {
		backend = "avx2"
	}
	var cnt int64
	for rot := 0; rot < 16; rot++ {
		if rot%vlib.NShards != vlib.Shard {
			continue
		}
		for j := 0; j < 65536/N; j++ {
			var in, a, b, c, d Poly
			for i := 0; i < N; i++ {
				in[i] = int16((j*N+i+rot)%65536 - 32768)
			}
			a, b, c, d = in, in, in, in
			a.Normalize()
			b.normalizeGeneric()
			c.BarrettReduce()
			d.barrettReduceGeneric()
			for i := 0; i < N; i++ {
				want := int16(c12ModQ(int64(in[i])))
				for k, got := range []int16{a[i], b[i]} {
					if got != want {
						be := []string{backend, "generic"}[k]
						if !vlib.ReportDirect(t, "C12/kyber.field/Normalize/"+be+"/wrong-result", fmt.Sprintf("Normalize of coefficient %d (lane %d) = %d, want %d", in[i], i%16, got, want), map[string]interface{}{"x": in[i], "lane": i % 16}) {
							return
						}
					}
				}
				for k, got := range []int16{c[i], d[i]} {
					if got < 0 || got > q || c12ModQ(int64(got)) != int64(want) {
						be := []string{backend, "generic"}[k]
						if !vlib.ReportDirect(t, "C12/kyber.field/BarrettReduce/"+be+"/wrong-result", fmt.Sprintf("BarrettReduce of coefficient %d (lane %d) = %d", in[i], i%16, got), map[string]interface{}{"x": in[i], "lane": i % 16}) {
							return
						}
					}
				}
			}
			cnt += 4 * N
		}
	}
	vlib.EvalN(sub, cnt)
	vlib.ClassN(sub, "op=Poly.Normalize/"+backend, cnt/4)
	vlib.ClassN(sub, "op=Poly.normalizeGeneric", cnt/4)
	vlib.ClassN(sub, "op=Poly.BarrettReduce/"+backend, cnt/4)
	vlib.ClassN(sub, "op=Poly.barrettReduceGeneric", cnt/4)
	if vlib.Shard == 0 {
		vlib.Exhaustive("C12 kyber Poly.Normalize / Poly.BarrettReduce ("+backend+" and generic): all 2^16 int16 in all 16 lane positions", 4*16*65536, "all shards together")
	}
}
