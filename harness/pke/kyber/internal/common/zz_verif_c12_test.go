//go:build verif

// C12 white-box: exhaustive sweep of Kyber's 16-bit reductions (q = 3329).
package common

import (
	"fmt"
	"testing"

	"github.com/cloudflare/circl/zz_verif/vlib"
	"pgregory.net/rapid"
)

func c12ModQ(x int64) int64 { return ((x % 3329) + 3329) % 3329 }

func TestVerifC12KyberField(t *testing.T) {
	defer vlib.Done()
	const q = 3329
	const sub = "kyber.field"
	if Q != q || (1<<16)*169%q != 1 || (1<<16)%q != 2285 {
		t.Fatalf("SELFTEST-FAIL: constants of the Kyber reference are off")
	}
	vlib.Selftest("c12/kyber-constants", "ok")
	bad := func(fn string, x int64, detail string) bool {
		return vlib.ReportDirect(t, "C12/kyber.field/"+fn+"/wrong-result", fmt.Sprintf("%s(%d): %s", fn, x, detail), map[string]interface{}{"fn": fn, "x": x})
	}
	// barrettReduce, toMont, csubq: every int16
	for xi := -32768; xi <= 32767; xi++ {
		x := int16(xi)
		y := barrettReduce(x)
		isNegMultiple := xi < 0 && xi%q == 0
		if y < 0 || y > q || c12ModQ(int64(y)) != c12ModQ(int64(xi)) || (y == q) != isNegMultiple {
			if bad("barrettReduce", int64(xi), fmt.Sprintf("= %d", y)) {
				continue
			}
			return
		}
		m := toMont(x)
		if m <= -q || m >= q || c12ModQ(int64(m)) != c12ModQ(int64(xi)*65536) {
			if bad("toMont", int64(xi), fmt.Sprintf("= %d", m)) {
				continue
			}
			return
		}
		if xi >= -29439 {
			want := x
			if xi >= q {
				want = x - q
			}
			if got := csubq(x); got != want {
				if bad("csubq", int64(xi), fmt.Sprintf("= %d want %d", got, want)) {
					continue
				}
				return
			}
		}
	}
	if vlib.Shard == 0 {
		vlib.EvalN(sub, 3*65536-(32768-29439))
		vlib.ClassN(sub, "op=barrettReduce", 65536)
		vlib.ClassN(sub, "op=toMont", 65536)
		vlib.ClassN(sub, "op=csubq", 65536-(32768-29439))
		vlib.Exhaustive("C12 kyber barrettReduce/toMont: all 2^16 int16; csubq: all x ≥ -29439", 3*65536-(32768-29439), "each shard repeats it; counted once")
	}
	// montReduce: every x with -2^15·q ≤ x < 2^15·q, split over the shards
	lo, hi := int64(-(1<<15)*q), int64((1<<15)*q)
	n := hi - lo
	per := (n + int64(vlib.NShards) - 1) / int64(vlib.NShards)
	a := lo + per*int64(vlib.Shard)
	b := a + per
	if b > hi {
		b = hi
	}
	w := c12ModQ(c12ModQ(a) * 169) // x·2^-16 mod q, maintained incrementally
	var cnt, edge int64
	for x := a; x < b; x++ {
		y := int64(montReduce(int32(x)))
		if !(y > -q && y < q && (y == w || y == w-q)) {
			if !bad("montReduce", x, fmt.Sprintf("= %d, x·2^-16 mod q = %d", y, w)) {
				return
			}
		}
		if y == q-1 || y == -(q-1) || y == 0 {
			edge++
		}
		w += 169
		if w >= q {
			w -= q
		}
		cnt++
	}
	vlib.EvalN(sub, cnt)
	vlib.ClassN(sub, "op=montReduce", cnt)
	vlib.ClassN(sub, "montReduce result in {0, ±(q-1)}", edge)
	vlib.NonTrivialH(sub, "", uint64(vlib.Shard)) // the enumeration is one non-trivial object per shard
	if vlib.Shard == 0 {
		vlib.Exhaustive("C12 kyber montReduce: all -2^15·q ≤ x < 2^15·q", n, "all shards together")
	}
}

// Every int16 in every SIMD lane position through Poly.Normalize and
// Poly.BarrettReduce — on the dispatched back-end (AVX2 where the CPU has it)
// and on the generic code — against x mod q.
func TestVerifC12KyberPolyReduce(t *testing.T) {
	defer vlib.Done()
	const q = 3329
	const sub = "kyber.field"
	backend := "generic"
	if c12HasAVX2() {
		backend = "avx2"
	}
	var cnt int64
	for rot := 0; rot < 16; rot++ {
		if rot%vlib.NShards != vlib.Shard {
			continue
		}
		for j := 0; j < 65536/N; j++ {
			var in, a, b, c, d Poly
			for i := 0; i < N; i++ {
				in[i] = int16((j*N+i+rot)%65536 - 32768)
			}
			a, b, c, d = in, in, in, in
			a.Normalize()
			b.normalizeGeneric()
			c.BarrettReduce()
			d.barrettReduceGeneric()
			for i := 0; i < N; i++ {
				want := int16(c12ModQ(int64(in[i])))
				for k, got := range []int16{a[i], b[i]} {
					if got != want {
						be := []string{backend, "generic"}[k]
						if !vlib.ReportDirect(t, "C12/kyber.field/Normalize/"+be+"/wrong-result", fmt.Sprintf("Normalize of coefficient %d (lane %d) = %d, want %d", in[i], i%16, got, want), map[string]interface{}{"x": in[i], "lane": i % 16}) {
							return
						}
					}
				}
				for k, got := range []int16{c[i], d[i]} {
					if got < 0 || got > q || c12ModQ(int64(got)) != int64(want) {
						be := []string{backend, "generic"}[k]
						if !vlib.ReportDirect(t, "C12/kyber.field/BarrettReduce/"+be+"/wrong-result", fmt.Sprintf("BarrettReduce of coefficient %d (lane %d) = %d", in[i], i%16, got), map[string]interface{}{"x": in[i], "lane": i % 16}) {
							return
						}
					}
				}
			}
			cnt += 4 * N
		}
	}
	vlib.EvalN(sub, cnt)
	vlib.ClassN(sub, "op=Poly.Normalize/"+backend, cnt/4)
	vlib.ClassN(sub, "op=Poly.normalizeGeneric", cnt/4)
	vlib.ClassN(sub, "op=Poly.BarrettReduce/"+backend, cnt/4)
	vlib.ClassN(sub, "op=Poly.barrettReduceGeneric", cnt/4)
	if vlib.Shard == 0 {
		vlib.Exhaustive("C12 kyber Poly.Normalize / Poly.BarrettReduce ("+backend+" and generic): all 2^16 int16 in all 16 lane positions", 4*16*65536, "all shards together")
	}
}

// ---------------------------------------------------------------------------
// Poly.Add / Sub / MulHat / ToMont over the whole documented input range, on the
// dispatched back-end (AVX2 where the CPU has it; it works on "tangled" order)
// and on the generic code, against integer arithmetic mod q.

const c12Q = 3329

var c12PolyEdges = []int32{0, 1, -1, 2, -2, c12Q - 1, -(c12Q - 1), c12Q, -c12Q, c12Q + 1, -(c12Q + 1), 2 * c12Q, -2 * c12Q, 7 * c12Q, -7 * c12Q, 1 << 12, -(1 << 12), 1 << 14, -(1 << 14), 1<<15 - 1, -(1 << 15), -(1<<15 - 1)}

// c12Coef draws a coefficient with lo ≤ c ≤ hi: an edge that fits, a bound ∓ d, or uniform.
func c12Coef(t *rapid.T, lo, hi int32, label string) int16 {
	switch rapid.IntRange(0, 3).Draw(t, label+".k") {
	case 0, 1:
		e := c12PolyEdges[rapid.IntRange(0, len(c12PolyEdges)-1).Draw(t, label+".e")]
		if e >= lo && e <= hi {
			return int16(e)
		}
		if e < lo {
			return int16(lo)
		}
		return int16(hi)
	case 2:
		d := int32(rapid.IntRange(0, 2).Draw(t, label+".d"))
		if rapid.Bool().Draw(t, label+".top") {
			if hi-d >= lo {
				return int16(hi - d)
			}
			return int16(hi)
		}
		if lo+d <= hi {
			return int16(lo + d)
		}
		return int16(lo)
	}
	return int16(rapid.Int32Range(lo, hi).Draw(t, label+".u"))
}

func c12Abs(x int32) int32 {
	if x < 0 {
		return -x
	}
	return x
}

func TestVerifC12KyberPoly(t *testing.T) {
	defer vlib.Done()
	const q = int64(c12Q)
	const sub = "kyber.poly"
	const lo16, hi16 = int32(-32768), int32(32767)
	backend := "generic-dispatch"
	if c12HasAVX2() {
		backend = "avx2"
	}
	mulBound := int32(1<<15) * c12Q // products strictly below 2^15·q in absolute value
	vlib.Check(t, vlib.N(2500, 25000), func(t *rapid.T) {
		op := rapid.SampledFrom([]string{"MulHat", "MulHat", "Add", "Sub", "ToMont"}).Draw(t, "op")
		vlib.Eval(sub)
		vlib.Class(sub, "op="+op)
		var a, b Poly
		near := false
		for i := 0; i < N; i += 2 {
			a[i], a[i+1] = c12Coef(t, lo16, hi16, "a"), c12Coef(t, lo16, hi16, "a")
			switch op {
			case "MulHat":
				// every product of a coefficient of the pair of a with one of the pair of b must stay below the bound
				m := c12Abs(int32(a[i]))
				if x := c12Abs(int32(a[i+1])); x > m {
					m = x
				}
				lim := hi16
				if m != 0 {
					if l := (mulBound - 1) / m; l < lim {
						lim = l
					}
				}
				l := -lim
				if lim == hi16 && m != 0 && int64(m)*32768 < int64(mulBound) {
					l = lo16
				}
				if m == 0 {
					l = lo16
				}
				b[i], b[i+1] = c12Coef(t, l, lim, "b"), c12Coef(t, l, lim, "b")
				if lim < hi16 && (c12Abs(int32(b[i])) >= lim-2 || c12Abs(int32(b[i+1])) >= lim-2) {
					near = true
				}
			case "Add":
				// sums and differences must fit a coefficient
				for k := i; k < i+2; k++ {
					l, h := lo16-int32(a[k]), hi16-int32(a[k])
					if l < lo16 {
						l = lo16
					}
					if h > hi16 {
						h = hi16
					}
					b[k] = c12Coef(t, l, h, "b")
				}
			case "Sub":
				for k := i; k < i+2; k++ {
					l, h := int32(a[k])-hi16, int32(a[k])-lo16
					if l < lo16 {
						l = lo16
					}
					if h > hi16 {
						h = hi16
					}
					b[k] = c12Coef(t, l, h, "b")
				}
			}
		}
		fail := func(be, class, detail string) {
			vlib.Report(t, "C12/kyber.poly/"+op+"/"+be+"/"+class, detail)
		}
		for _, be := range []string{backend, "generic"} {
			var p Poly
			switch op {
			case "Add", "Sub":
				switch {
				case op == "Add" && be == "generic":
					p.addGeneric(&a, &b)
				case op == "Add":
					p.Add(&a, &b)
				case be == "generic":
					p.subGeneric(&a, &b)
				default:
					p.Sub(&a, &b)
				}
				for i := range p {
					want := int32(a[i]) + int32(b[i])
					if op == "Sub" {
						want = int32(a[i]) - int32(b[i])
					}
					if int32(p[i]) != want {
						fail(be, "wrong-result", fmt.Sprintf("coefficient %d: %s(%d, %d) gave %d", i, op, a[i], b[i], p[i]))
						return
					}
				}
			case "ToMont":
				if be != "generic" {
					continue // ToMont has a single implementation
				}
				p = a
				p.ToMont()
				for i := range p {
					// arbitrary input; result ≡ x·2^16 and bounded in absolute value by q
					if c12Abs(int32(p[i])) > c12Q || c12ModQ(int64(p[i])) != c12ModQ(int64(a[i])*65536) {
						fail(be, "wrong-result", fmt.Sprintf("ToMont(%d) gave %d", a[i], p[i]))
						return
					}
				}
			case "MulHat":
				if be == "generic" {
					p.mulHatGeneric(&a, &b)
				} else {
					x, y := a, b
					x.Tangle()
					y.Tangle()
					p.MulHat(&x, &y)
					p.Detangle()
				}
				// (a0 + a1·X)(b0 + b1·X) mod (X² ∓ ζ), every product carrying the Montgomery factor 2^-16
				const rinv = 169
				k := 64
				for i := 0; i < N; i += 4 {
					zeta := c12ModQ(int64(Zetas[k]))
					k++
					for h, sign := range []int64{1, -1} {
						j := i + 2*h
						a0, a1, b0, b1 := int64(a[j]), int64(a[j+1]), int64(b[j]), int64(b[j+1])
						w0 := c12ModQ(c12ModQ(c12ModQ(a1*b1)*rinv)*zeta%q*rinv*sign + c12ModQ(a0*b0)*rinv)
						w1 := c12ModQ(c12ModQ(a0*b1)*rinv + c12ModQ(a1*b0)*rinv)
						if c12ModQ(int64(p[j])) != w0 || c12ModQ(int64(p[j+1])) != w1 || c12Abs(int32(p[j])) > 2*c12Q || c12Abs(int32(p[j+1])) > 2*c12Q {
							fail(be, "wrong-result", fmt.Sprintf("pair at %d: a=(%d,%d) b=(%d,%d): MulHat gave (%d,%d), want ≡ (%d,%d) and |·| ≤ 2q", j, a[j], a[j+1], b[j], b[j+1], p[j], p[j+1], w0, w1))
							return
						}
					}
				}
			}
		}
		vlib.Class(sub, "backend="+backend+"+generic")
		if near {
			vlib.Class(sub, "mulhat-product-just-below-2^15q")
		}
		raw := make([]byte, 0, 4*N)
		for i := range a {
			raw = append(raw, byte(a[i]), byte(uint16(a[i])>>8), byte(b[i]), byte(uint16(b[i])>>8))
		}
		vlib.NonTrivialH(sub, "", vlib.Hash64([]byte(op), raw))
	})
}

// NTT and InvNTT on structured inputs over their whole documented domain
// (|coefficient| ≤ q), dispatched (AVX2, tangled order) and generic code, against
// the linear model Σ x[i]·T(e_i) mod q built from the transforms of the unit
// vectors of the same back-end, the documented output bounds (7q resp. q), and
// against each other.
func TestVerifC12KyberNTTStructured(t *testing.T) {
	defer vlib.Done()
	const q = int64(c12Q)
	const sub = "kyber.poly"
	backend := "generic-dispatch"
	if c12HasAVX2() {
		backend = "avx2"
	}
	type tf struct {
		name, be string
		f        func(p *Poly) // input and output in natural order
	}
	tfs := []tf{
		{"NTT", backend, func(p *Poly) { p.NTT(); p.Detangle() }}, {"NTT", "generic", func(p *Poly) { p.nttGeneric() }},
		{"InvNTT", backend, func(p *Poly) { p.Tangle(); p.InvNTT() }}, {"InvNTT", "generic", func(p *Poly) { p.invNTTGeneric() }},
	}
	basis := make([][N][N]int64, len(tfs))
	for k, x := range tfs {
		for i := 0; i < N; i++ {
			var e Poly
			e[i] = 1
			x.f(&e)
			for j := range e {
				basis[k][i][j] = c12ModQ(int64(e[j]))
			}
		}
	}
	vals := []int16{0, 1, -1, c12Q - 1, -(c12Q - 1), c12Q, -c12Q, c12Q, -c12Q, c12Q / 2}
	vlib.Check(t, vlib.N(400, 4000), func(t *rapid.T) {
		var x Poly
		lo := vals[rapid.IntRange(0, len(vals)-1).Draw(t, "lo")]
		hi := vals[rapid.IntRange(0, len(vals)-1).Draw(t, "hi")]
		kind := rapid.SampledFrom([]string{"constant", "blocks", "blocks", "blocks", "spike", "ramp", "random", "random-two-valued"}).Draw(t, "kind")
		raw := make([]byte, 2*N)
		vlib.FillRandom(t, raw, "raw")
		sh := uint(rapid.IntRange(0, 7).Draw(t, "blk"))
		pos := rapid.IntRange(0, N-1).Draw(t, "pos")
		for i := range x {
			switch kind {
			case "constant":
				x[i] = hi
			case "blocks":
				x[i] = lo
				if (i>>sh)&1 == 1 {
					x[i] = hi
				}
			case "spike":
				x[i] = lo
				if i == pos {
					x[i] = hi
				}
			case "ramp":
				x[i] = int16(-c12Q + (2*c12Q*i)/(N-1))
			case "random-two-valued":
				x[i] = lo
				if raw[i]&1 == 1 {
					x[i] = hi
				}
			default:
				x[i] = int16(int32(uint32(raw[2*i])|uint32(raw[2*i+1])<<8)%(2*c12Q+1) - c12Q)
			}
		}
		vlib.Eval(sub)
		vlib.Class(sub, "op=NTT/InvNTT-structured")
		vlib.Class(sub, "pattern="+kind)
		var outs [4]Poly
		for k, tr := range tfs {
			y := x
			tr.f(&y)
			outs[k] = y
			bound := int32(7 * c12Q)
			if tr.name == "InvNTT" {
				bound = c12Q
			}
			var want [N]int64
			for i := 0; i < N; i++ {
				xi := c12ModQ(int64(x[i]))
				if xi == 0 {
					continue
				}
				for j := 0; j < N; j++ {
					want[j] = (want[j] + xi*basis[k][i][j]) % q
				}
			}
			for j := range y {
				if c12ModQ(int64(y[j])) != want[j] || c12Abs(int32(y[j])) > bound {
					vlib.Report(t, "C12/kyber.poly/"+tr.name+"-structured/"+tr.be+"/wrong-result", fmt.Sprintf("pattern %s lo=%d hi=%d: coefficient %d = %d, linear model gives %d, documented bound %d", kind, lo, hi, j, y[j], want[j], bound))
					return
				}
			}
		}
		for k := 0; k < 4; k += 2 {
			for j := 0; j < N; j++ {
				if c12ModQ(int64(outs[k][j])) != c12ModQ(int64(outs[k+1][j])) {
					vlib.Report(t, "C12/kyber.poly/"+tfs[k].name+"-structured/backends-differ", fmt.Sprintf("pattern %s coefficient %d: %s %d, generic %d", kind, j, backend, outs[k][j], outs[k+1][j]))
					return
				}
			}
		}
		vlib.NonTrivialH(sub, "", vlib.Hash64([]byte("ntt-structured"), []byte(kind), []byte{byte(lo), byte(uint16(lo) >> 8), byte(hi), byte(uint16(hi) >> 8), byte(sh), byte(pos)}, raw))
	})
}
