//go:build verif && (!amd64 || purego)

package common

func c12HasAVX2() bool { return false }
