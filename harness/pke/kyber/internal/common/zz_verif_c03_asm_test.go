//go:build verif && amd64 && !purego

package common

// vc03PureGo: this build uses the dispatching wrappers of amd64.go.
const vc03PureGo = false
