//go:build verif

// C13 (white-box part): the internal edwards25519 point type of sign/ed25519
// (pointR1 with fixedMult / doubleMult / double / add / mixAdd / neg) against
// the big-integer reference. All points are known multiples of the base point.
package ed25519

import (
	"fmt"
	"math/big"
	"sync"
	"testing"

	fp "github.com/cloudflare/circl/math/fp25519"
	"github.com/cloudflare/circl/zz_verif/ref/curves"
	"github.com/cloudflare/circl/zz_verif/vlib"
	"pgregory.net/rapid"
)

var (
	c13Once  sync.Once
	c13Err   error
	c13Cache sync.Map
)

func c13Want(k *big.Int) string {
	kk := new(big.Int).Mod(k, curves.Ed25519.R)
	if v, ok := c13Cache.Load(kk.Text(62)); ok {
		return v.(string)
	}
	p := curves.Ed25519.MulG(kk)
	s := p.X.A.Text(16) + ";" + p.Y.A.Text(16)
	c13Cache.Store(kk.Text(62), s)
	return s
}

func c13Mk(a *big.Int) *pointR1 {
	p := curves.Ed25519.MulG(a)
	var P pointR1
	copy(P.x[:], vlib.LE(p.X.A, fp.Size))
	copy(P.y[:], vlib.LE(p.Y.A, fp.Size))
	fp.SetOne(&P.z)
	P.ta = P.x
	P.tb = P.y
	return &P
}

func c13Enc(P *pointR1) string {
	cp := *P
	cp.toAffine()
	return vlib.FromLE(cp.x[:]).Text(16) + ";" + vlib.FromLE(cp.y[:]).Text(16)
}

func c13Exp(t *rapid.T, label string) (*big.Int, string) {
	r := curves.Ed25519.R
	v, _ := vlib.ScalarNear(t, r, r.BitLen(), label)
	v.Mod(v, r)
	switch {
	case v.Sign() == 0:
		return v, "P=identity"
	case v.Cmp(big.NewInt(1)) == 0:
		return v, "P=G"
	case new(big.Int).Sub(r, v).Cmp(big.NewInt(1)) == 0:
		return v, "P=-G"
	case v.BitLen() <= 16:
		return v, "P=small·G"
	}
	return v, "P=random"
}

func c13SClass(k *big.Int) string {
	r := curves.Ed25519.R
	one := big.NewInt(1)
	max := new(big.Int).Sub(new(big.Int).Lsh(one, 256), one)
	switch {
	case k.Sign() == 0:
		return "k=0"
	case k.Cmp(one) == 0:
		return "k=1"
	case k.Cmp(new(big.Int).Sub(r, one)) == 0:
		return "k=r-1"
	case k.Cmp(r) == 0:
		return "k=r"
	case k.Cmp(new(big.Int).Add(r, one)) == 0:
		return "k=r+1"
	case k.Cmp(max) == 0:
		return "k=max"
	case k.Cmp(r) > 0:
		return "k>r"
	case k.BitLen() <= 16:
		return "k-small"
	case new(big.Int).Sub(r, k).BitLen() <= 16:
		return "k-near-r"
	}
	return "k<r"
}

func c13Report(t vlib.TB, op, class, got, want, desc string) bool {
	return vlib.Report(t, fmt.Sprintf("C13/ed25519-internal.%s/%s", op, class), fmt.Sprintf("%s: got %s want %s", desc, got, want))
}

func TestC13Ed25519Internal(t *testing.T) {
	defer vlib.Done()
	c13Once.Do(func() { c13Err = curves.SelfTest(nil) })
	if c13Err != nil {
		t.Fatalf("SELFTEST-FAIL %v", c13Err)
	}
	vlib.Selftest("ref/curves (white-box ed25519): curve equations, group orders, RFC 8032 §7.1 key pair, RFC 9496 vectors", "ok")
	r := curves.Ed25519.R
	if got := vlib.FromLE(order[:]); got.Cmp(r) != 0 {
		vlib.ReportDirect(t, "C13/ed25519-internal.order/mismatch", got.Text(16), nil)
	}
	t.Run("grouplaw", func(t *testing.T) {
		sub := "grouplaw/ed25519-internal"
		vlib.Check(t, vlib.N(300, 1200), func(t *rapid.T) {
			a, pcls := c13Exp(t, "a")
			rel := rapid.SampledFrom([]string{"Q=P", "Q=-P", "Q=identity", "Q=kP", "Q=G", "Q=-G", "Q=random", "Q=random"}).Draw(t, "rel")
			var b *big.Int
			switch rel {
			case "Q=P":
				b = new(big.Int).Set(a)
			case "Q=-P":
				b = new(big.Int).Neg(a)
			case "Q=identity":
				b = big.NewInt(0)
			case "Q=kP":
				b = new(big.Int).Mul(a, big.NewInt(int64(rapid.IntRange(-33, 33).Draw(t, "k"))))
			case "Q=G":
				b = big.NewInt(1)
			case "Q=-G":
				b = big.NewInt(-1)
			default:
				b, _ = c13Exp(t, "b")
			}
			b.Mod(b, r)
			// scalars of the full 32-byte width the functions take (callers pass values below the order)
			k, _ := vlib.ScalarNear(t, r, 256, "k")
			n, _ := vlib.ScalarNear(t, r, 256, "n")
			mrel := rapid.SampledFrom([]string{"n=m", "n=-m", "n=0", "m=0", "small", "n·b=m", "indep", "indep"}).Draw(t, "mn")
			m := new(big.Int).Set(k)
			switch mrel {
			case "n=m":
				n = new(big.Int).Set(m)
			case "n=-m":
				n = new(big.Int).Sub(r, new(big.Int).Mod(m, r))
			case "n=0":
				n = big.NewInt(0)
			case "m=0":
				m = big.NewInt(0)
			case "small":
				m = big.NewInt(int64(rapid.IntRange(0, 300).Draw(t, "ms")))
				n = big.NewInt(int64(rapid.IntRange(0, 300).Draw(t, "ns")))
			case "n·b=m":
				if b.Sign() != 0 {
					n = new(big.Int).ModInverse(b, r)
					n.Mul(n, m).Mod(n, r)
				}
			}
			kcls := c13SClass(k)
			vlib.Eval(sub)
			vlib.Class(sub, pcls)
			vlib.Class(sub, rel)
			vlib.Class(sub, kcls)
			vlib.Class(sub, "combined:"+mrel)
			vlib.Class(sub, "m:"+c13SClass(m))
			vlib.Class(sub, "n:"+c13SClass(n))
			desc := fmt.Sprintf("P=%s·G Q=%s·G (%s) k=%s m=%s n=%s (%s)", a.Text(16), b.Text(16), rel, k.Text(16), m.Text(16), n.Text(16), mrel)
			P, Q := c13Mk(a), c13Mk(b)
			if c13Enc(P) != c13Want(a) {
				// c13Mk copies the reference's affine coordinates (z = 1, no library group operation); only
				// pointR1.toAffine (field inversion and multiplications) lies between them and this comparison:
				// a conversion / field defect outside C13's group operations, the check cannot proceed
				t.Fatalf("SELFTEST-FAIL circl misbehaved outside C13: pointR1.toAffine of the affine reference point %s·G gives %s, the reference has %s", a.Text(16), c13Enc(P), c13Want(a))
			}
			// double
			{
				D := *P
				D.double()
				if got, want := c13Enc(&D), c13Want(new(big.Int).Lsh(a, 1)); got != want {
					if c13Report(t, "double", "mismatch", got, want, desc) {
						return
					}
				}
			}
			// add (projective pre-computed operand) and mixAdd (affine pre-computed operand)
			sum := c13Want(new(big.Int).Add(a, b))
			{
				var R2 pointR2
				R2.fromR1(Q)
				S := *P
				S.add(&R2)
				if got := c13Enc(&S); got != sum {
					if c13Report(t, "add", "mismatch", got, sum, desc) {
						return
					}
				}
				// a non-normalised operand: Q' = 2·(Q/2) computed by the library has z != 1
				h := new(big.Int).Mul(b, new(big.Int).ModInverse(big.NewInt(2), r))
				Qh := c13Mk(h.Mod(h, r))
				Qh.double()
				R2.fromR1(Qh)
				S = *P
				S.add(&R2)
				if got := c13Enc(&S); got != sum {
					if c13Report(t, "add", "projective-operand", got, sum, desc) {
						return
					}
				}
				// and a non-normalised accumulator
				Ph := c13Mk(new(big.Int).Mod(new(big.Int).Mul(a, new(big.Int).ModInverse(big.NewInt(2), r)), r))
				Ph.double()
				R2.fromR1(Q)
				Ph.add(&R2)
				if got := c13Enc(Ph); got != sum {
					if c13Report(t, "add", "projective-accumulator", got, sum, desc) {
						return
					}
				}
				var R3 pointR2
				R3.fromR1(Q) // Q is affine (z = 1), so its pointR3 part is the mixed-addition operand
				S = *P
				S.mixAdd(&R3.pointR3)
				if got := c13Enc(&S); got != sum {
					if c13Report(t, "mixAdd", "mismatch", got, sum, desc) {
						return
					}
				}
			}
			// neg and P + (−P)
			{
				N := *P
				N.neg()
				if got, want := c13Enc(&N), c13Want(new(big.Int).Neg(a)); got != want {
					if c13Report(t, "neg", "mismatch", got, want, desc) {
						return
					}
				}
				var R2 pointR2
				R2.fromR1(&N)
				S := *P
				S.add(&R2)
				if got, want := c13Enc(&S), c13Want(big.NewInt(0)); got != want {
					if c13Report(t, "add", "P+(-P)", got, want, desc) {
						return
					}
				}
				if !S.isEqual(c13Mk(big.NewInt(0))) || P.isEqual(Q) != (a.Cmp(b) == 0) {
					if vlib.Report(t, "C13/ed25519-internal.isEqual/mismatch", desc) {
						return
					}
				}
			}
			// fixed-base multiplication
			{
				var F pointR1
				F.fixedMult(vlib.LE(k, paramB))
				if got, want := c13Enc(&F), c13Want(k); got != want {
					if c13Report(t, "fixedMult", "mismatch", got, want, desc) {
						return
					}
				}
				// fixed base = variable base on G: 0·G + k·G
				var V pointR1
				V.doubleMult(c13Mk(big.NewInt(1)), make([]byte, paramB), vlib.LE(k, paramB))
				if got, want := c13Enc(&V), c13Want(k); got != want {
					if c13Report(t, "doubleMult", "0·G+k·G", got, want, desc) {
						return
					}
				}
				kr := new(big.Int).Add(k, r)
				if kr.BitLen() <= 256 {
					F.fixedMult(vlib.LE(kr, paramB))
					if got, want := c13Enc(&F), c13Want(k); got != want {
						if c13Report(t, "fixedMult", "k+r", got, want, desc) {
							return
						}
					}
				}
			}
			// double-scalar multiplication m·G + n·Q
			{
				var V pointR1
				Qc := *Q
				V.doubleMult(&Qc, vlib.LE(m, paramB), vlib.LE(n, paramB))
				e := new(big.Int).Mul(n, b)
				e.Add(e, m)
				if got, want := c13Enc(&V), c13Want(e); got != want {
					if c13Report(t, "doubleMult", "mismatch", got, want, desc) {
						return
					}
				}
			}
			// aliased call forms (receiver = operand); only result values are asserted, the functions are
			// free to overwrite their point argument (doubleMult leaves 15·Q in Q)
			{
				e := new(big.Int).Mul(n, a)
				e.Add(e, m)
				V := *P
				V.doubleMult(&V, vlib.LE(m, paramB), vlib.LE(n, paramB))
				if got, want := c13Enc(&V), c13Want(e); got != want {
					if c13Report(t, "doubleMult", "aliased-P.doubleMult(P,m,n)", got, want, desc) {
						return
					}
				}
				// the same slice as both scalars
				kb := vlib.LE(k, paramB)
				Qc := *Q
				V.doubleMult(&Qc, kb, kb)
				e = new(big.Int).Mul(k, b)
				if got, want := c13Enc(&V), c13Want(e.Add(e, k)); got != want {
					if c13Report(t, "doubleMult", "aliased-same-scalar-slice", got, want, desc) {
						return
					}
				}
				// receiver holding an old value
				W := *Q
				W.fixedMult(kb)
				if got, want := c13Enc(&W), c13Want(k); got != want {
					if c13Report(t, "fixedMult", "receiver-with-old-value", got, want, desc) {
						return
					}
				}
				// P.add(P as pre-computed operand), P.mixAdd(P as affine operand)
				var R2 pointR2
				S := *P
				R2.fromR1(&S)
				S.add(&R2)
				if got, want := c13Enc(&S), c13Want(new(big.Int).Lsh(a, 1)); got != want {
					if c13Report(t, "add", "aliased-P.add(fromR1(P))", got, want, desc) {
						return
					}
				}
				S = *P
				R2.fromR1(&S)
				S.mixAdd(&R2.pointR3)
				if got, want := c13Enc(&S), c13Want(new(big.Int).Lsh(a, 1)); got != want {
					if c13Report(t, "mixAdd", "aliased-P.mixAdd(fromR1(P))", got, want, desc) {
						return
					}
				}
				// un-normalised receiver = operand for doubleMult: (2·(a/2)G).doubleMult(itself)
				H := c13Mk(new(big.Int).Mod(new(big.Int).Mul(a, new(big.Int).ModInverse(big.NewInt(2), r)), r))
				H.double()
				H.doubleMult(H, vlib.LE(m, paramB), vlib.LE(n, paramB))
				e = new(big.Int).Mul(n, a)
				if got, want := c13Enc(H), c13Want(e.Add(e, m)); got != want {
					if c13Report(t, "doubleMult", "aliased-projective", got, want, desc) {
						return
					}
				}
				// predicates
				N := *P
				N.neg()
				zero := a.Sign() == 0
				D := *P
				D.double()
				if P.isEqual(&N) != zero || N.isEqual(P) != zero || P.isEqual(&D) != zero || !P.isEqual(P) || P.isEqual(Q) != (a.Cmp(b) == 0) || Q.isEqual(P) != (a.Cmp(b) == 0) {
					if vlib.Report(t, "C13/ed25519-internal.isEqual/structured-pairs", desc) {
						return
					}
				}
			}
			// encode / decode keep the point
			{
				enc := make([]byte, paramB)
				cp := *P
				if err := cp.ToBytes(enc); err != nil {
					vlib.Report(t, "C13/ed25519-internal.ToBytes/error", err.Error())
					return
				}
				want := curves.EdEncode(curves.Ed25519, curves.Ed25519.MulG(a), 32)
				var back pointR1
				if fmt.Sprintf("%x", enc) != fmt.Sprintf("%x", want) || !back.FromBytes(enc) || c13Enc(&back) != c13Want(a) {
					if vlib.Report(t, "C13/ed25519-internal.ToBytes-FromBytes/mismatch", fmt.Sprintf("%s: %x vs RFC 8032 %x", desc, enc, want)) {
						return
					}
				}
			}
			if kcls != "k<r" || rel != "Q=random" || pcls != "P=random" || mrel != "indep" {
				vlib.NonTrivial(sub, "nontrivial", a.Bytes(), []byte{0}, b.Bytes(), []byte{1}, k.Bytes(), []byte{2}, m.Bytes(), []byte{3}, n.Bytes())
				vlib.Sample(sub, rel+"/"+kcls+"/"+mrel, desc)
			}
		})
	})
	t.Run("history", func(t *testing.T) {
		// state machine over a pool of pointR1 objects: every operation and every observer (ToBytes normalises
		// in place, isEqual, fromR1) in any order; each object keeps representing (model exponent)·G.
		sub := "history/ed25519-internal"
		vlib.Check(t, vlib.N(120, 480), func(t *rapid.T) {
			const N = 4
			pool := make([]pointR1, N)
			exps := make([]*big.Int, N)
			observed := make([]bool, N)
			var trace []string
			for i := range pool {
				a, _ := c13Exp(t, "a")
				pool[i], exps[i] = *c13Mk(a), a
				trace = append(trace, fmt.Sprintf("o%d := %s·G", i, a.Text(16)))
			}
			last := "init"
			failed := false
			after, steps := 0, 0
			pick := func(t *rapid.T) (int, int) {
				return rapid.IntRange(0, N-1).Draw(t, "i"), rapid.IntRange(0, N-1).Draw(t, "j")
			}
			scalar := func(t *rapid.T, label string) *big.Int {
				if rapid.Bool().Draw(t, label+".small") {
					return big.NewInt(int64(rapid.IntRange(0, 20).Draw(t, label)))
				}
				k, _ := vlib.ScalarNear(t, r, 256, label)
				return k
			}
			step := func(name string, i, j int, e *big.Int, desc string) {
				if observed[i] || observed[j] {
					after++
				}
				exps[i] = new(big.Int).Mod(e, r)
				observed[i] = false
				last = name
				steps++
				trace = append(trace, desc)
				vlib.Class(sub, name)
			}
			actions := map[string]func(*rapid.T){
				"": func(t *rapid.T) {
					if failed {
						return
					}
					for i := range pool {
						if got, want := c13Enc(&pool[i]), c13Want(exps[i]); got != want {
							failed = true
							if len(trace) > 12 {
								trace = append([]string{"…"}, trace[len(trace)-12:]...)
							}
							vlib.Report(t, "C13/ed25519-internal.history/wrong-after-"+last, fmt.Sprintf("object o%d: got %s want %s·G = %s; history: %v", i, got, exps[i].Text(16), want, trace))
							return
						}
					}
				},
				"assign": func(t *rapid.T) {
					i, _ := pick(t)
					a, _ := c13Exp(t, "a")
					pool[i], exps[i], observed[i] = *c13Mk(a), a, false
					last = "assign"
					trace = append(trace, fmt.Sprintf("o%d := %s·G", i, a.Text(16)))
				},
				"double": func(t *rapid.T) {
					i, _ := pick(t)
					pool[i].double()
					step("double", i, i, new(big.Int).Lsh(exps[i], 1), fmt.Sprintf("o%d.double()", i))
				},
				"neg": func(t *rapid.T) {
					i, _ := pick(t)
					pool[i].neg()
					step("neg", i, i, new(big.Int).Neg(exps[i]), fmt.Sprintf("o%d.neg()", i))
				},
				"add": func(t *rapid.T) {
					i, j := pick(t)
					var R2 pointR2
					R2.fromR1(&pool[j])
					pool[i].add(&R2)
					step("add", i, j, new(big.Int).Add(exps[i], exps[j]), fmt.Sprintf("o%d.add(fromR1(o%d))", i, j))
				},
				"fixedMult": func(t *rapid.T) {
					i, _ := pick(t)
					k := scalar(t, "k")
					pool[i].fixedMult(vlib.LE(k, paramB))
					step("fixedMult", i, i, k, fmt.Sprintf("o%d.fixedMult(%s)", i, k.Text(16)))
				},
				"doubleMult": func(t *rapid.T) {
					i, j := pick(t)
					m, n := scalar(t, "m"), scalar(t, "n")
					e := new(big.Int).Mul(n, exps[j])
					e.Add(e, m)
					if i == j {
						pool[i].doubleMult(&pool[i], vlib.LE(m, paramB), vlib.LE(n, paramB))
					} else {
						Qc := pool[j] // doubleMult may overwrite its point argument; the copy keeps the object's internal form
						pool[i].doubleMult(&Qc, vlib.LE(m, paramB), vlib.LE(n, paramB))
					}
					step("doubleMult", i, j, e, fmt.Sprintf("o%d.doubleMult(o%d, %s, %s)", i, j, m.Text(16), n.Text(16)))
				},
				"into:SetIdentity": func(t *rapid.T) {
					i, _ := pick(t)
					pool[i].SetIdentity()
					step("into:SetIdentity", i, i, big.NewInt(0), fmt.Sprintf("o%d.SetIdentity()", i))
				},
				"into:assign-struct": func(t *rapid.T) {
					i, j := pick(t)
					pool[i] = pool[j]
					step("into:assign-struct", i, j, exps[j], fmt.Sprintf("o%d = o%d", i, j))
				},
				"into:FromBytes(ToBytes)": func(t *rapid.T) {
					i, j := pick(t)
					enc := make([]byte, paramB)
					cp := pool[j]
					_ = cp.ToBytes(enc)
					if !pool[i].FromBytes(enc) {
						t.Fatalf("FromBytes rejects the encoding of a pool object")
					}
					step("into:FromBytes(ToBytes)", i, j, exps[j], fmt.Sprintf("o%d.FromBytes(o%d.ToBytes())", i, j))
				},
				"observe:ToBytes": func(t *rapid.T) {
					if failed {
						return
					}
					i, _ := pick(t)
					enc := make([]byte, paramB)
					_ = pool[i].ToBytes(enc)
					observed[i] = true
					last = "observe:ToBytes"
					steps++
					trace = append(trace, fmt.Sprintf("o%d.ToBytes()", i))
					vlib.Class(sub, last)
					if want := curves.EdEncode(curves.Ed25519, curves.Ed25519.MulG(exps[i]), 32); fmt.Sprintf("%x", enc) != fmt.Sprintf("%x", want) {
						failed = true
						vlib.Report(t, "C13/ed25519-internal.ToBytes/wrong-in-history", fmt.Sprintf("%x vs %x; history: %v", enc, want, trace))
					}
				},
				"observe:isEqual": func(t *rapid.T) {
					if failed {
						return
					}
					i, j := pick(t)
					got := pool[i].isEqual(&pool[j])
					got2 := pool[i].isEqual(c13Mk(exps[i]))
					observed[i] = true
					last = "observe:isEqual"
					steps++
					trace = append(trace, fmt.Sprintf("o%d.isEqual(o%d)", i, j))
					vlib.Class(sub, last)
					if got != (exps[i].Cmp(exps[j]) == 0) || !got2 {
						failed = true
						vlib.Report(t, "C13/ed25519-internal.isEqual/wrong-in-history", fmt.Sprintf("o%d vs o%d: %v, vs fresh copy of its value: %v; history: %v", i, j, got, got2, trace))
					}
				},
			}
			t.Repeat(actions)
			vlib.Eval(sub)
			vlib.EvalN(sub+"/steps", int64(steps))
			if after > 0 && !failed {
				vlib.Class(sub, "operand-after-observer")
				vlib.NonTrivial(sub, "operand-after-observer", []byte(fmt.Sprint(trace)))
				vlib.Sample(sub, "history", fmt.Sprint(trace))
			}
		})
	})
	t.Run("low-order-operands", func(t *testing.T) {
		// the curve points with x = 0 or y = 0 ((0,1), (0,−1), (±√−1, 0)) added to multiples of G:
		// the formulas are complete, verification feeds such public keys to doubleMult
		sub := "special/ed25519-internal"
		ref := curves.Ed25519
		f := ref.F
		var low []curves.EPoint
		low = append(low, ref.Identity(), curves.EPoint{X: f.Int(0), Y: f.Int(-1)})
		low = append(low, ref.LiftY(f.Int(0))...)
		for _, p := range low {
			if !ref.OnCurve(p) || !ref.IsIdentity(ref.Mul(big.NewInt(4), p)) {
				t.Fatalf("SELFTEST-FAIL low-order point")
			}
		}
		mkE := func(p curves.EPoint) *pointR1 {
			var P pointR1
			copy(P.x[:], vlib.LE(p.X.A, fp.Size))
			copy(P.y[:], vlib.LE(p.Y.A, fp.Size))
			fp.SetOne(&P.z)
			P.ta, P.tb = P.x, P.y
			return &P
		}
		es := func(p curves.EPoint) string { return p.X.A.Text(16) + ";" + p.Y.A.Text(16) }
		vlib.Check(t, vlib.N(150, 600), func(t *rapid.T) {
			i := rapid.IntRange(0, len(low)-1).Draw(t, "low1")
			j := rapid.IntRange(0, len(low)-1).Draw(t, "low2")
			a := big.NewInt(0)
			if rapid.Bool().Draw(t, "plusMultiple") {
				a, _ = c13Exp(t, "a")
			}
			b, _ := c13Exp(t, "b")
			if rapid.IntRange(0, 3).Draw(t, "same") == 0 {
				b = new(big.Int).Set(a)
			}
			m := big.NewInt(int64(rapid.IntRange(0, 40).Draw(t, "m")))
			n := big.NewInt(int64(rapid.IntRange(0, 40).Draw(t, "n")))
			if rapid.Bool().Draw(t, "big") {
				m, _ = vlib.ScalarNear(t, r, 253, "mm")
				n, _ = vlib.ScalarNear(t, r, 253, "nn")
			}
			vlib.Eval(sub)
			vlib.Class(sub, fmt.Sprintf("low#%d+low#%d", i, j))
			Pr := ref.Add(ref.MulG(a), low[i])
			Qr := ref.Add(ref.MulG(b), low[j])
			desc := fmt.Sprintf("P=%s Q=%s m=%s n=%s", es(Pr), es(Qr), m.Text(16), n.Text(16))
			P, Q := mkE(Pr), mkE(Qr)
			D := *P
			D.double()
			if got, want := c13Enc(&D), es(ref.Double(Pr)); got != want {
				if c13Report(t, "double", "low-order-operand", got, want, desc) {
					return
				}
			}
			var R2 pointR2
			R2.fromR1(Q)
			S := *P
			S.add(&R2)
			if got, want := c13Enc(&S), es(ref.Add(Pr, Qr)); got != want {
				if c13Report(t, "add", "low-order-operand", got, want, desc) {
					return
				}
			}
			S = D // un-normalised accumulator
			S.add(&R2)
			if got, want := c13Enc(&S), es(ref.Add(ref.Double(Pr), Qr)); got != want {
				if c13Report(t, "add", "low-order-operand-projective", got, want, desc) {
					return
				}
			}
			// m·G + n·Q with Q outside the prime-order group: n is an integer here (no reduction mod r)
			var V pointR1
			Qc := *Q
			V.doubleMult(&Qc, vlib.LE(m, paramB), vlib.LE(n, paramB))
			if got, want := c13Enc(&V), es(ref.Add(ref.MulG(m), ref.Mul(n, Qr))); got != want {
				if c13Report(t, "doubleMult", "low-order-operand", got, want, desc) {
					return
				}
			}
			vlib.NonTrivial(sub, "low-order-operand", []byte{byte(i), byte(j)}, a.Bytes(), []byte{0}, b.Bytes(), m.Bytes(), []byte{1}, n.Bytes())
			vlib.Sample(sub, fmt.Sprintf("low#%d", i), desc)
		})
	})
	t.Run("sweep", func(t *testing.T) {
		// scalars next to 0, r, 2r, … and the top of the 32-byte width; small (m, n) grid with structured Q
		sub := "sweep/ed25519-internal"
		span := int64(vlib.N(24, 300))
		one := big.NewInt(1)
		max := new(big.Int).Sub(new(big.Int).Lsh(one, 256), one)
		var ks []*big.Int
		seen := map[string]bool{}
		addK := func(k *big.Int) {
			if k.Sign() < 0 || k.Cmp(max) > 0 || seen[k.String()] {
				return
			}
			seen[k.String()] = true
			ks = append(ks, k)
		}
		for c := int64(0); c <= 15; c++ {
			if !vlib.Thorough() && c > 2 && c != 15 {
				continue
			}
			for d := -span; d <= span; d++ {
				addK(new(big.Int).Add(new(big.Int).Mul(r, big.NewInt(c)), big.NewInt(d)))
			}
		}
		for d := int64(0); d <= span; d++ {
			addK(new(big.Int).Sub(max, big.NewInt(d)))
		}
		other := new(big.Int).Rsh(r, 3)
		for i, k := range ks {
			if i%vlib.NShards != vlib.Shard {
				continue
			}
			vlib.Eval(sub)
			var F, V pointR1
			F.fixedMult(vlib.LE(k, paramB))
			if got, want := c13Enc(&F), c13Want(k); got != want {
				if !vlib.ReportDirect(t, "C13/ed25519-internal.fixedMult/boundary-scalar", fmt.Sprintf("k=%s: got %s want %s", k.Text(16), got, want), map[string]interface{}{"k": k.Text(16)}) {
					return
				}
			}
			V.doubleMult(c13Mk(other), vlib.LE(k, paramB), vlib.LE(k, paramB))
			e := new(big.Int).Mul(k, other)
			e.Add(e, k)
			if got, want := c13Enc(&V), c13Want(e); got != want {
				if !vlib.ReportDirect(t, "C13/ed25519-internal.doubleMult/boundary-scalar", fmt.Sprintf("m=n=%s Q=%s·G: got %s want %s", k.Text(16), other.Text(16), got, want), map[string]interface{}{"k": k.Text(16)}) {
					return
				}
			}
			vlib.NonTrivialH(sub, "boundary-scalar", vlib.Hash64(k.Bytes()))
		}
		if vlib.Shard == 0 {
			vlib.Exhaustive(fmt.Sprintf("C13 ed25519-internal: scalars within ±%d of c·r (c=0…15; quick tier: c ∈ {0,1,2,15}) and of 2^256−1, fixedMult and doubleMult", span), int64(len(ks)), "all shards together")
		}
		// structured scalars: runs of one/zero bits (63…66, 127…130, …) at every bit offset, digit-pattern scalars
		{
			level, maxLen := 1, 130
			if vlib.Thorough() {
				level, maxLen = 2, 256
			}
			runs := curves.RunScalars(256, maxLen, level, vlib.Seed)
			pats := curves.DigitPatternScalars(256)
			ssub := sub + "/structured-scalars"
			for i, k := range append(append([]*big.Int{}, runs...), pats...) {
				if i%vlib.NShards != vlib.Shard {
					continue
				}
				vlib.Eval(ssub)
				var F pointR1
				F.fixedMult(vlib.LE(k, paramB))
				if got, want := c13Enc(&F), c13Want(k); got != want {
					if !vlib.ReportDirect(t, "C13/ed25519-internal.fixedMult/structured-scalar", fmt.Sprintf("k=%s: got %s want %s", k.Text(16), got, want), map[string]interface{}{"k": k.Text(16)}) {
						return
					}
				}
			}
			runsVar := curves.RunScalars(256, 256, level-1, vlib.Seed)
			zero := make([]byte, paramB)
			for i, k := range append(append([]*big.Int{}, runsVar...), pats...) {
				if i%vlib.NShards != vlib.Shard {
					continue
				}
				vlib.Eval(ssub)
				kb := vlib.LE(k, paramB)
				for c, mn := range [][2][]byte{{kb, zero}, {zero, kb}, {kb, kb}} {
					var V pointR1
					V.doubleMult(c13Mk(big.NewInt(1)), mn[0], mn[1])
					e := new(big.Int).Set(k)
					if c == 2 {
						e.Lsh(e, 1)
					}
					if got, want := c13Enc(&V), c13Want(e); got != want {
						if !vlib.ReportDirect(t, fmt.Sprintf("C13/ed25519-internal.doubleMult#%d/structured-scalar", c), fmt.Sprintf("k=%s: got %s want %s", k.Text(16), got, want), map[string]interface{}{"k": k.Text(16)}) {
							return
						}
					}
				}
			}
			vlib.NonTrivialH(ssub, "structured-batch", vlib.Hash64([]byte{byte(vlib.Shard), byte(vlib.Seed)}))
			if vlib.Shard == 0 {
				vlib.Exhaustive(fmt.Sprintf("C13 ed25519-internal: runs of one/zero bits (lengths 63…66, 127…130, … ≤ %d) at every bit offset of a 256-bit scalar, low parts 1, 3, 0", maxLen), int64(len(runs)),
					fmt.Sprintf("fixedMult: level %d of ref/curves.RunScalars; doubleMult: %d scalars; %d digit-pattern scalars", level, len(runsVar), len(pats)))
			}
		}
		inv2 := new(big.Int).ModInverse(big.NewInt(2), r)
		var qs []*big.Int
		for _, d := range []int64{1, -1, 2, 3, -3, 5, 7, 9, 15, 16, 17, 31, 33, 63, 65, 0} {
			qs = append(qs, new(big.Int).Mod(big.NewInt(d), r))
		}
		for _, d := range []int64{1, -1, 3, -3, 5, 7} {
			f := new(big.Int).Set(inv2)
			for j := 0; j < 4; j++ {
				q := new(big.Int).Mul(big.NewInt(d), f)
				qs = append(qs, q.Mod(q, r))
				f.Mul(f, inv2).Mod(f, r)
			}
		}
		g := vlib.N(12, 40)
		idx := 0
		for _, b := range qs {
			for m := 0; m <= g; m++ {
				for n := 0; n <= g; n++ {
					idx++
					if idx%vlib.NShards != vlib.Shard {
						continue
					}
					vlib.Eval(sub + "/doubleMult-grid")
					var V pointR1
					V.doubleMult(c13Mk(b), vlib.LE(big.NewInt(int64(m)), paramB), vlib.LE(big.NewInt(int64(n)), paramB))
					e := new(big.Int).Mul(big.NewInt(int64(n)), b)
					e.Add(e, big.NewInt(int64(m)))
					if got, want := c13Enc(&V), c13Want(e); got != want {
						if !vlib.ReportDirect(t, "C13/ed25519-internal.doubleMult/grid", fmt.Sprintf("m=%d n=%d Q=%s·G: got %s want %s", m, n, b.Text(16), got, want), map[string]interface{}{"m": m, "n": n, "b": b.Text(16)}) {
							return
						}
					}
					vlib.NonTrivialH(sub+"/doubleMult-grid", "grid", vlib.Hash64(b.Bytes(), []byte{byte(m), byte(n)}))
				}
			}
		}
		if vlib.Shard == 0 {
			vlib.Exhaustive(fmt.Sprintf("C13 ed25519-internal: doubleMult(m,n,Q) for 0 ≤ m,n ≤ %d and %d structured Q", g, len(qs)), int64(len(qs)*(g+1)*(g+1)), "all shards together")
		}
	})
}
