//go:build verif

// C09 (white-box): the Ed25519 public-key decoder used by verification.
// pointR1.FromBytes accepts b ⇒ RFC 8032 §5.1.3 (independent reference) accepts b
// and ToBytes gives b back; every key the library derives decodes again.
package ed25519

import (
	"bytes"
	"fmt"
	"math/big"
	"testing"

	"github.com/cloudflare/circl/zz_verif/ref/decode"
	"github.com/cloudflare/circl/zz_verif/vlib"
	"pgregory.net/rapid"
)

const verifC09Sub = "ed25519.pointR1.FromBytes"

// verifC09Used decodes b into a zero pointR1 and into one that already holds a point (base point,
// identity, an unnormalised double, the remains of a rejected decode): the verdict and the decoded
// value (ToBytes, affine x and y) must not depend on what the receiver held.
func verifC09Used(t vlib.TB, b []byte) {
	sub := verifC09Sub
	type obs struct {
		ok             bool
		pan            interface{}
		enc, x, y, dbl []byte
	}
	look := func(P *pointR1) (o obs) {
		o.pan, _ = vlib.Catch(func() {
			o.ok = P.FromBytes(b)
			if o.ok {
				// behaviour under arithmetic: 2·P, computed before ToBytes normalises P
				D := *P
				D.double()
				o.dbl = make([]byte, 32)
				_ = D.ToBytes(o.dbl)
				o.enc = make([]byte, 32)
				_ = P.ToBytes(o.enc)
				o.x, o.y = append([]byte{}, P.x[:]...), append([]byte{}, P.y[:]...)
			}
		})
		return o
	}
	fresh := look(new(pointR1))
	states := []string{"base-point", "identity", "double(unnormalised)", "after-rejected-decode", "same-input-twice"}
	st := int(vlib.Hash64([]byte("recv"), b) % uint64(len(states)))
	up := new(pointR1)
	base := decode.Ed25519Encode(decode.B25519)
	switch st {
	case 0:
		up.FromBytes(base)
	case 1:
		up.SetIdentity()
	case 2:
		up.FromBytes(base)
		up.double()
	case 3:
		up.FromBytes(base)
		g := make([]byte, 32)
		for i := range g {
			g[i] = 0xff
		}
		up.FromBytes(g)
	default:
		up.FromBytes(b)
	}
	used := look(up)
	vlib.Class(sub, "used-receiver state="+states[st])
	if fresh.pan != nil {
		return
	}
	detail := fmt.Sprintf("receiver state=%s input=%x fresh={ok=%v enc=%x} used={ok=%v enc=%x x=%x panic=%v}", states[st], b, fresh.ok, fresh.enc, used.ok, used.enc, used.x, used.pan)
	switch {
	case used.pan != nil:
		vlib.Report(t, "C09/receiver/ed25519.FromBytes/panics-with-used-receiver", detail)
	case used.ok != fresh.ok:
		vlib.Report(t, "C09/receiver/ed25519.FromBytes/verdict-differs", detail)
	case used.ok && !(bytes.Equal(used.enc, fresh.enc) && bytes.Equal(used.x, fresh.x) && bytes.Equal(used.y, fresh.y) && bytes.Equal(used.dbl, fresh.dbl)):
		vlib.Report(t, "C09/receiver/ed25519.FromBytes/value-differs", detail)
	case used.ok:
		vlib.Class(sub, "used-receiver accepted: compared with fresh decode")
	}
}

func verifC09Check(t vlib.TB, b []byte, kind string, valid bool) {
	sub := verifC09Sub
	vlib.Eval(sub)
	verifC09Used(t, b)
	var P pointR1
	var accepted bool
	if pn, _ := vlib.Catch(func() { accepted = P.FromBytes(b) }); pn != nil {
		vlib.Class(sub, "panic(counted; property C10): "+vlib.PanicClass(pn))
		return
	}
	ref := decode.Ed25519Decode(b)
	vlib.Class(sub, "kind="+kind)
	acc := "rejected"
	if accepted {
		acc = "accepted"
	}
	if valid {
		vlib.Class(sub, "library-encoding:"+acc)
	} else {
		vlib.NonTrivial(sub, "adversarial:"+acc, b)
		vlib.Class(sub, "adversarial:"+kind+":"+acc)
	}
	vlib.Class(sub, "ref-stage="+ref.Stage)
	if ref.OK && !accepted {
		vlib.Class(sub, "ref-accepts/circl-rejects(counted only)")
	}
	vlib.Sample(sub, kind+":"+acc, fmt.Sprintf("%s kind=%s input=%x → %s ref=%s", sub, kind, b, acc, ref.Stage))
	if valid && !accepted {
		vlib.Report(t, "C09/completeness/ed25519.FromBytes/rejects-library-encoding", fmt.Sprintf("input=%x", b))
		return
	}
	if ref.OK {
		vlib.Class(sub, "ref sqrt branch="+ref.Branch+":"+acc)
	}
	if (kind == "structured-valid" || kind == "ref-point" || kind == "low-order") && ref.OK {
		// built by the reference as the canonical encoding of a curve point: a value the library can hold and
		// serialise, so it must be accepted
		vlib.Class(sub, "reference-constructed valid encoding ("+kind+")")
		if !accepted {
			vlib.Report(t, "C09/completeness/ed25519.FromBytes/rejects-valid-encoding", fmt.Sprintf("kind=%s input=%x is the canonical encoding of a curve point (sqrt branch %s) but is rejected", kind, b, ref.Branch))
			return
		}
	}
	if !accepted {
		return
	}
	out := make([]byte, 32)
	err := P.ToBytes(out)
	if !ref.OK {
		vlib.Report(t, "C09/soundness/ed25519.FromBytes/"+ref.Stage, fmt.Sprintf("kind=%s input=%x accepted; RFC 8032 §5.1.3 rejects (%s); re-serialised=%x", kind, b, ref.Stage, out))
		return
	}
	if err != nil || !bytes.Equal(out, b) {
		vlib.Report(t, "C09/soundness/ed25519.FromBytes/reencode-differs", fmt.Sprintf("kind=%s input=%x re-serialised=%x err=%v", kind, b, out, err))
		return
	}
	// coordinates (P was normalised by ToBytes)
	x, y := vlib.FromLE(P.x[:]), vlib.FromLE(P.y[:])
	if x.Cmp(ref.P.X) != 0 || y.Cmp(ref.P.Y) != 0 {
		vlib.Report(t, "C09/soundness/ed25519.FromBytes/decoded-value-differs", fmt.Sprintf("kind=%s input=%x x=%x reference x=%x", kind, b, x, ref.P.X))
		return
	}
}

func TestVerifC09Ed25519Decode(t *testing.T) {
	defer vlib.Done()
	p := decode.P25519
	// exhaustive: every y in [p, 2^255) × both sign bits (38 encodings), and the small y values
	n := int64(0)
	for k := int64(0); k < 19; k++ {
		for s := byte(0); s < 2; s++ {
			b := vlib.LE(new(big.Int).Add(p, big.NewInt(k)), 32)
			b[31] |= s << 7
			verifC09Check(t, b, "y>=p(exhaustive)", false)
			n++
		}
	}
	vlib.Exhaustive("C09 ed25519: all encodings with y in [p, 2^255), both sign bits", n, "white-box pointR1.FromBytes")
	kinds := []string{"valid", "bitflip", "bitflip", "x-zero-sign", "low-order", "ref-point", "structured-valid", "structured-valid", "small-y", "random", "random"}
	vlib.Check(t, vlib.N(1500, 20000), func(t *rapid.T) {
		kind := rapid.SampledFrom(kinds).Draw(t, "kind")
		lib := func() []byte {
			seed := vlib.EdgeBytes(t, SeedSize, "seed")
			return append([]byte{}, NewKeyFromSeed(seed).Public().(PublicKey)...)
		}
		var b []byte
		valid := false
		switch kind {
		case "valid":
			b, valid = lib(), true
		case "bitflip":
			b = lib()
			i := rapid.IntRange(0, 255).Draw(t, "bit")
			if rapid.IntRange(0, 3).Draw(t, "top") == 0 {
				i = 248 + rapid.IntRange(0, 7).Draw(t, "topbit")
			}
			b[i/8] ^= 1 << (i % 8)
		case "x-zero-sign":
			y := big.NewInt(1)
			if rapid.Bool().Draw(t, "minus1") {
				y = new(big.Int).Sub(p, big.NewInt(1))
			}
			b = vlib.LE(y, 32)
			b[31] |= 0x80
		case "low-order":
			// 8-torsion: L·P for a drawn curve point P
			for i := 0; ; i++ {
				e := vlib.LE(verifC09DrawBelowP(t, fmt.Sprintf("y%d", i)), 32)
				if r := decode.Ed25519Decode(e); r.OK {
					T := decode.Ed25519Mul(decode.L25519, r.P)
					b = decode.Ed25519Encode(T)
					break
				}
			}
			if rapid.Bool().Draw(t, "flipsign") {
				b[31] ^= 0x80
			}
		case "ref-point":
			for i := 0; ; i++ {
				b = vlib.LE(verifC09DrawBelowP(t, fmt.Sprintf("y%d", i)), 32)
				if rapid.Bool().Draw(t, "sign") {
					b[31] |= 0x80
				}
				if decode.Ed25519Decode(b).OK || i > 100 {
					break
				}
			}
		case "structured-valid":
			// curve points with structure, built by the reference: structured y with either sign bit, or structured x
			// lifted through the curve equation (either root y); both branches of the p ≡ 5 (mod 8) square root occur
			for i := 0; ; i++ {
				if rapid.Bool().Draw(t, fmt.Sprintf("fromx%d", i)) {
					if P, ok := decode.Ed25519LiftX(verifC09Structured(t, fmt.Sprintf("x%d", i))); ok {
						if rapid.Bool().Draw(t, "negy") {
							P.Y = new(big.Int).Mod(new(big.Int).Neg(P.Y), p)
						}
						b = decode.Ed25519Encode(P)
						break
					}
					continue
				}
				b = vlib.LE(verifC09Structured(t, fmt.Sprintf("y%d", i)), 32)
				if rapid.Bool().Draw(t, fmt.Sprintf("sign%d", i)) {
					b[31] |= 0x80
				}
				if decode.Ed25519Decode(b).OK || i > 100 {
					break
				}
			}
		case "small-y":
			b = vlib.LE(big.NewInt(int64(rapid.IntRange(0, 40).Draw(t, "y"))), 32)
			if rapid.Bool().Draw(t, "sign") {
				b[31] |= 0x80
			}
		default:
			b = make([]byte, 32)
			vlib.FillRandom(t, b, "rnd")
		}
		verifC09Check(t, b, kind, valid)
	})
}

func verifC09DrawBelowP(t *rapid.T, label string) *big.Int {
	b := make([]byte, 40)
	vlib.FillRandom(t, b, label)
	v := new(big.Int).SetBytes(b)
	return v.Mod(v, decode.P25519)
}

// verifC09Structured draws a field value with structure: 0, ±1, ±small, 2^k, 2^k−1, (p±1)/2, ±squares.
func verifC09Structured(t *rapid.T, label string) *big.Int {
	p := decode.P25519
	var v *big.Int
	switch rapid.IntRange(0, 6).Draw(t, label+".sk") {
	case 0:
		v = big.NewInt(int64(rapid.IntRange(0, 3).Draw(t, label+".v")))
	case 1:
		v = big.NewInt(int64(rapid.IntRange(0, 200).Draw(t, label+".v")))
	case 2:
		v = new(big.Int).Sub(p, big.NewInt(int64(rapid.IntRange(1, 200).Draw(t, label+".v"))))
	case 3:
		v = new(big.Int).Lsh(big.NewInt(1), uint(rapid.IntRange(1, 254).Draw(t, label+".e")))
	case 4:
		v = new(big.Int).Lsh(big.NewInt(1), uint(rapid.IntRange(1, 254).Draw(t, label+".e")))
		v.Sub(v, big.NewInt(1))
	case 5:
		v = new(big.Int).Rsh(p, 1)
		if rapid.Bool().Draw(t, label+".up") {
			v.Add(v, big.NewInt(1))
		}
	default:
		r := int64(rapid.IntRange(2, 60).Draw(t, label+".r"))
		v = big.NewInt(r * r)
		if rapid.Bool().Draw(t, label+".neg") {
			v.Sub(p, v)
		}
	}
	return v.Mod(v, p)
}
