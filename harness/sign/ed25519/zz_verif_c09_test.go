//go:build verif

// C09 (white-box): the Ed25519 public-key decoder used by verification.
// pointR1.FromBytes accepts b ⇒ RFC 8032 §5.1.3 (independent reference) accepts b
// and ToBytes gives b back; every key the library derives decodes again.
package ed25519

import (
	"bytes"
	"fmt"
	"math/big"
	"testing"

	"github.com/cloudflare/circl/zz_verif/ref/decode"
	"github.com/cloudflare/circl/zz_verif/vlib"
	"pgregory.net/rapid"
)

const verifC09Sub = "ed25519.pointR1.FromBytes"

func verifC09Check(t vlib.TB, b []byte, kind string, valid bool) {
	sub := verifC09Sub
	vlib.Eval(sub)
	var P pointR1
	var accepted bool
	if pn, _ := vlib.Catch(func() { accepted = P.FromBytes(b) }); pn != nil {
		vlib.Class(sub, "panic(counted; property C10): "+vlib.PanicClass(pn))
		return
	}
	ref := decode.Ed25519Decode(b)
	vlib.Class(sub, "kind="+kind)
	acc := "rejected"
	if accepted {
		acc = "accepted"
	}
	if valid {
		vlib.Class(sub, "library-encoding:"+acc)
	} else {
		vlib.NonTrivial(sub, "adversarial:"+acc, b)
		vlib.Class(sub, "adversarial:"+kind+":"+acc)
	}
	vlib.Class(sub, "ref-stage="+ref.Stage)
	if ref.OK && !accepted {
		vlib.Class(sub, "ref-accepts/circl-rejects(counted only)")
	}
	vlib.Sample(sub, kind+":"+acc, fmt.Sprintf("%s kind=%s input=%x → %s ref=%s", sub, kind, b, acc, ref.Stage))
	if valid && !accepted {
		vlib.Report(t, "C09/completeness/ed25519.FromBytes/rejects-library-encoding", fmt.Sprintf("input=%x", b))
		return
	}
	if !accepted {
		return
	}
	out := make([]byte, 32)
	err := P.ToBytes(out)
	if !ref.OK {
		vlib.Report(t, "C09/soundness/ed25519.FromBytes/"+ref.Stage, fmt.Sprintf("kind=%s input=%x accepted; RFC 8032 §5.1.3 rejects (%s); re-serialised=%x", kind, b, ref.Stage, out))
		return
	}
	if err != nil || !bytes.Equal(out, b) {
		vlib.Report(t, "C09/soundness/ed25519.FromBytes/reencode-differs", fmt.Sprintf("kind=%s input=%x re-serialised=%x err=%v", kind, b, out, err))
		return
	}
	// coordinates (P was normalised by ToBytes)
	x, y := vlib.FromLE(P.x[:]), vlib.FromLE(P.y[:])
	if x.Cmp(ref.P.X) != 0 || y.Cmp(ref.P.Y) != 0 {
		vlib.Report(t, "C09/soundness/ed25519.FromBytes/decoded-value-differs", fmt.Sprintf("kind=%s input=%x x=%x reference x=%x", kind, b, x, ref.P.X))
		return
	}
}

func TestVerifC09Ed25519Decode(t *testing.T) {
	defer vlib.Done()
	p := decode.P25519
	// exhaustive: every y in [p, 2^255) × both sign bits (38 encodings), and the small y values
	n := int64(0)
	for k := int64(0); k < 19; k++ {
		for s := byte(0); s < 2; s++ {
			b := vlib.LE(new(big.Int).Add(p, big.NewInt(k)), 32)
			b[31] |= s << 7
			verifC09Check(t, b, "y>=p(exhaustive)", false)
			n++
		}
	}
	vlib.Exhaustive("C09 ed25519: all encodings with y in [p, 2^255), both sign bits", n, "white-box pointR1.FromBytes")
	kinds := []string{"valid", "bitflip", "bitflip", "x-zero-sign", "low-order", "ref-point", "small-y", "random", "random"}
	vlib.Check(t, vlib.N(1500, 20000), func(t *rapid.T) {
		kind := rapid.SampledFrom(kinds).Draw(t, "kind")
		lib := func() []byte {
			seed := vlib.EdgeBytes(t, SeedSize, "seed")
			return append([]byte{}, NewKeyFromSeed(seed).Public().(PublicKey)...)
		}
		var b []byte
		valid := false
		switch kind {
		case "valid":
			b, valid = lib(), true
		case "bitflip":
			b = lib()
			i := rapid.IntRange(0, 255).Draw(t, "bit")
			if rapid.IntRange(0, 3).Draw(t, "top") == 0 {
				i = 248 + rapid.IntRange(0, 7).Draw(t, "topbit")
			}
			b[i/8] ^= 1 << (i % 8)
		case "x-zero-sign":
			y := big.NewInt(1)
			if rapid.Bool().Draw(t, "minus1") {
				y = new(big.Int).Sub(p, big.NewInt(1))
			}
			b = vlib.LE(y, 32)
			b[31] |= 0x80
		case "low-order":
			// 8-torsion: L·P for a drawn curve point P
			for i := 0; ; i++ {
				e := vlib.LE(verifC09DrawBelowP(t, fmt.Sprintf("y%d", i)), 32)
				if r := decode.Ed25519Decode(e); r.OK {
					T := decode.Ed25519Mul(decode.L25519, r.P)
					b = decode.Ed25519Encode(T)
					break
				}
			}
			if rapid.Bool().Draw(t, "flipsign") {
				b[31] ^= 0x80
			}
		case "ref-point":
			for i := 0; ; i++ {
				b = vlib.LE(verifC09DrawBelowP(t, fmt.Sprintf("y%d", i)), 32)
				if rapid.Bool().Draw(t, "sign") {
					b[31] |= 0x80
				}
				if decode.Ed25519Decode(b).OK || i > 100 {
					break
				}
			}
		case "small-y":
			b = vlib.LE(big.NewInt(int64(rapid.IntRange(0, 40).Draw(t, "y"))), 32)
			if rapid.Bool().Draw(t, "sign") {
				b[31] |= 0x80
			}
		default:
			b = make([]byte, 32)
			vlib.FillRandom(t, b, "rnd")
		}
		verifC09Check(t, b, kind, valid)
	})
}

func verifC09DrawBelowP(t *rapid.T, label string) *big.Int {
	b := make([]byte, 40)
	vlib.FillRandom(t, b, label)
	v := new(big.Int).SetBytes(b)
	return v.Mod(v, decode.P25519)
}
