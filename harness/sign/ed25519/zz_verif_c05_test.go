//go:build verif

// C05 white-box: the scalar arithmetic and scalar multiplications of
// sign/ed25519 against math/big and ref/edwards.
package ed25519

import (
	"bytes"
	"encoding/binary"
	"fmt"
	"math/big"
	"testing"

	"github.com/cloudflare/circl/zz_verif/ref/edwards"
	"github.com/cloudflare/circl/zz_verif/vlib"
	"pgregory.net/rapid"
)

var (
	c05L     = edwards.Ed25519Curve.L
	c05Two   = new(big.Int).Lsh(big.NewInt(1), 256)
	c05Wrap  = new(big.Int).Sub(new(big.Int).Lsh(big.NewInt(1), 256), edwards.Ed25519Curve.L) // 2^256 - L
	c05Small = new(big.Int).Sub(edwards.Ed25519Curve.L, new(big.Int).Lsh(big.NewInt(1), 252)) // c = L - 2^252
)

// c05Wide draws an integer below 2^(64*words) with the structures that reach
// the rare paths of red512: limb edges, q*2^252 + small (the value left after
// the folding loop with a tiny low part), multiples of L plus/minus small.
func c05Wide(t *rapid.T, words int, label string) (*big.Int, string) {
	max := new(big.Int).Lsh(big.NewInt(1), uint(64*words))
	var v *big.Int
	var cls string
	switch rapid.IntRange(0, 5).Draw(t, label+".k") {
	case 0, 1:
		v, cls = vlib.Limbs(t, words, 1, label), "limb-edge"
	case 2:
		// q*2^252 + small, q up to the width
		q := vlib.Limbs(t, 1, 1, label+".q")
		if words == 4 {
			q.And(q, big.NewInt(15))
		}
		v = new(big.Int).Lsh(q, 252)
		sm := vlib.Limbs(t, rapid.IntRange(1, 3).Draw(t, label+".sw"), 1, label+".s")
		v.Add(v, sm)
		cls = "q*2^252+small"
	case 3:
		// j*L +- small
		j := vlib.Limbs(t, rapid.IntRange(1, words-3).Draw(t, label+".jw"), 1, label+".j")
		if words == 4 {
			j.And(j, big.NewInt(15))
		}
		v = new(big.Int).Mul(j, c05L)
		d := big.NewInt(int64(rapid.IntRange(-40, 40).Draw(t, label+".d")))
		v.Add(v, d)
		cls = "multiple-of-L+-small"
	case 4:
		// 2^256*h + small: after folding the high half nothing but a borrow is left
		h := vlib.Limbs(t, 1, 1, label+".h")
		v = new(big.Int).Lsh(h, 256)
		v.Add(v, big.NewInt(int64(rapid.IntRange(0, 1000).Draw(t, label+".lo"))))
		cls = "h*2^256+small"
	default:
		b := make([]byte, 8*words)
		vlib.FillRandom(t, b, label)
		v, cls = vlib.FromLE(b), "uniform"
	}
	if v.Sign() < 0 {
		v.SetInt64(0)
	}
	v.Mod(v, max)
	return v, cls
}

// c05Residue compares a 256-bit result with the canonical residue; the one
// known deviation on the pinned tree (missing final "add L when the last
// subtraction borrows": the result is want - L + 2^256) gets its own key so
// that any other wrong result is still reported separately.
func c05Residue(t vlib.TB, fn, in string, got, want *big.Int) bool {
	if got.Cmp(want) == 0 {
		return true
	}
	key := "C05/whitebox/ed25519." + fn + "/wrong-residue"
	if new(big.Int).Sub(got, want).Cmp(c05Wrap) == 0 {
		key = "C05/whitebox/ed25519." + fn + "/missing-final-correction"
	}
	vlib.Report(t, key, fmt.Sprintf("%s got=%x want=%x (got-want=%x)", in, got, want, new(big.Int).Sub(got, want)))
	return false
}

func TestVerifC05Reduce(t *testing.T) {
	defer vlib.Done()
	const sub = "whitebox/ed25519.reduce"
	vlib.Check(t, vlib.N(20000, 300000), func(t *rapid.T) {
		full := rapid.Bool().Draw(t, "full")
		words := 4
		if full {
			words = rapid.SampledFrom([]int{8, 8, 8, 4}).Draw(t, "words")
		}
		v, cls := c05Wide(t, words, "x")
		want := new(big.Int).Mod(v, c05L)
		vlib.Eval(sub)
		// red512 on words
		var x [8]uint64
		b := vlib.LE(v, 64)
		for i := range x {
			x[i] = binary.LittleEndian.Uint64(b[8*i:])
		}
		red512(&x, full)
		out := make([]byte, 64)
		for i := range x {
			binary.LittleEndian.PutUint64(out[8*i:], x[i])
		}
		got := vlib.FromLE(out[:32])
		if full {
			got = vlib.FromLE(out)
		}
		in := fmt.Sprintf("full=%v x=%x", full, v)
		ok := c05Residue(t, "red512", in, got, want)
		// reduceModOrder on bytes (the form the callers use)
		k := vlib.LE(v, 8*words)
		reduceModOrder(k, full)
		got2 := vlib.FromLE(k)
		if got2.Cmp(got) != 0 {
			vlib.Report(t, "C05/whitebox/ed25519.reduceModOrder/differs-from-red512", fmt.Sprintf("%s red512=%x reduceModOrder=%x", in, got, got2))
			return
		}
		vlib.Class(sub, "class="+cls)
		if ok && cls != "uniform" {
			vlib.NonTrivial(sub, "", []byte{byte(words)}, v.Bytes())
		}
	})
}

func c05Clamped(t *rapid.T, label string) *big.Int {
	v := vlib.Limbs(t, 4, 1, label)
	b := vlib.LE(v, 32)
	clamp(b)
	return vlib.FromLE(b)
}

func c05ScalarLT(t *rapid.T, label string) (*big.Int, string) {
	switch rapid.IntRange(0, 2).Draw(t, label+".k") {
	case 0:
		v := vlib.Limbs(t, 4, 1, label)
		return v.Mod(v, c05L), "limb-edge"
	case 1:
		v, c := vlib.ScalarNear(t, c05L, 253, label)
		return v.Mod(v, c05L), "near-order/" + c
	}
	b := make([]byte, 32)
	vlib.FillRandom(t, b, label)
	v := vlib.FromLE(b)
	return v.Mod(v, c05L), "uniform"
}

func TestVerifC05CalculateS(t *testing.T) {
	defer vlib.Done()
	const sub = "whitebox/ed25519.calculateS"
	vlib.Check(t, vlib.N(20000, 300000), func(t *rapid.T) {
		// the operands the signer passes: r, k reduced; a clamped
		r, cr := c05ScalarLT(t, "r")
		k, ck := c05ScalarLT(t, "k")
		a := c05Clamped(t, "a")
		if rapid.IntRange(0, 9).Draw(t, "aEdge") == 0 {
			a = new(big.Int).Lsh(big.NewInt(1), 254) // smallest clamped scalar
		}
		vlib.Eval(sub)
		s := make([]byte, 32)
		calculateS(s, vlib.LE(r, 32), vlib.LE(k, 32), vlib.LE(a, 32))
		want := new(big.Int).Mul(k, a)
		want.Add(want, r)
		want.Mod(want, c05L)
		ok := c05Residue(t, "calculateS", fmt.Sprintf("r=%x k=%x a=%x", r, k, a), vlib.FromLE(s), want)
		vlib.Class(sub, "r="+cr)
		if ok {
			_ = ck
			vlib.NonTrivial(sub, "", r.Bytes(), k.Bytes(), a.Bytes())
		}
	})
}

func TestVerifC05LessThanOrder(t *testing.T) {
	defer vlib.Done()
	const sub = "whitebox/ed25519.isLessThanOrder"
	vlib.Check(t, vlib.N(5000, 50000), func(t *rapid.T) {
		var v *big.Int
		if rapid.Bool().Draw(t, "near") {
			v, _ = vlib.ScalarNear(t, c05L, 256, "x")
			// also values that share the high octets with L
			if rapid.Bool().Draw(t, "prefix") {
				n := rapid.IntRange(0, 31).Draw(t, "n")
				b := vlib.LE(c05L, 32)
				lo := vlib.LE(v, 32)
				copy(b[:n], lo[:n])
				v = vlib.FromLE(b)
			}
		} else {
			v = vlib.Limbs(t, 4, 1, "x")
		}
		vlib.Eval(sub)
		if got, want := isLessThanOrder(vlib.LE(v, 32)), v.Cmp(c05L) < 0; got != want {
			vlib.Report(t, "C05/whitebox/ed25519.isLessThanOrder/wrong", fmt.Sprintf("x=%x got=%v", v, got))
			return
		}
		vlib.NonTrivial(sub, "", v.Bytes())
	})
}

func c05Enc(P *pointR1) []byte {
	o := make([]byte, 32)
	_ = P.ToBytes(o)
	return o
}

func TestVerifC05Mult(t *testing.T) {
	defer vlib.Done()
	const sub = "whitebox/ed25519.mult"
	c := edwards.Ed25519Curve
	B := c.Base()
	var pts []*edwards.Point
	for _, k := range []int64{1, 2, 3, 7, 1 << 30} {
		pts = append(pts, c.ScalarMult(big.NewInt(k), B))
	}
	pts = append(pts, c.ScalarMult(new(big.Int).Sub(c.L, big.NewInt(1)), B))
	pts = append(pts, c.SmallOrderPoints()...)
	T := c.SmallOrderPoints()
	pts = append(pts, c.Add(pts[3], T[1]), c.Add(pts[4], T[4])) // mixed order
	vlib.Check(t, vlib.N(500, 5000), func(t *rapid.T) {
		op := rapid.SampledFrom([]string{"fixedMult", "doubleMult", "doubleMult"}).Draw(t, "op")
		m, cm := c05ScalarLT(t, "m")
		n, cn := c05ScalarLT(t, "n")
		pi := rapid.IntRange(0, len(pts)-1).Draw(t, "pt")
		vlib.Eval(sub)
		var got []byte
		var want *edwards.Point
		var P pointR1
		switch op {
		case "fixedMult":
			P.fixedMult(vlib.LE(m, 32))
			got = c05Enc(&P)
			want = c.ScalarMult(m, B)
		case "doubleMult":
			var Q pointR1
			if !Q.FromBytes(c.Encode(pts[pi])) {
				// the decoder verification uses refuses the canonical encoding of a curve point: the same
				// defect TestVerifC05Decode reports
				vlib.Report(t, "C05/whitebox/ed25519.FromBytes/rejects-valid", fmt.Sprintf("in=%x (canonical encoding of reference point#%d)", c.Encode(pts[pi]), pi))
				return
			}
			P.doubleMult(&Q, vlib.LE(m, 32), vlib.LE(n, 32))
			got = c05Enc(&P)
			want = c.Add(c.ScalarMult(m, B), c.ScalarMult(n, pts[pi]))
		}
		if w := c.Encode(want); !bytes.Equal(got, w) {
			if vlib.Report(t, "C05/whitebox/ed25519."+op+"/wrong-point", fmt.Sprintf("m=%x n=%x point#%d got=%x want=%x", m, n, pi, got, w)) {
				return
			}
		}
		vlib.Class(sub, "op="+op)
		if cm != "uniform" || cn != "uniform" {
			vlib.NonTrivial(sub, "edge-scalar", []byte(op), m.Bytes(), n.Bytes(), []byte{byte(pi)})
		}
	})
}

// TestVerifC05Decode: pointR1.FromBytes against the strict RFC 8032 decoder.
func TestVerifC05Decode(t *testing.T) {
	defer vlib.Done()
	const sub = "whitebox/ed25519.FromBytes"
	c := edwards.Ed25519Curve
	vlib.Check(t, vlib.N(3000, 30000), func(t *rapid.T) {
		var b []byte
		kind := rapid.SampledFrom([]string{"valid", "y-random", "y>=p", "x=0-sign", "small-order", "y-near-p", "y=2^k-1"}).Draw(t, "kind")
		switch kind {
		case "valid":
			k := big.NewInt(int64(rapid.IntRange(0, 1<<30).Draw(t, "k")))
			b = c.Encode(c.ScalarMult(k, c.Base()))
		case "y-random":
			b = vlib.EdgeBytes(t, 32, "y")
		case "y>=p":
			y := new(big.Int).Add(c.P, big.NewInt(int64(rapid.IntRange(0, 18).Draw(t, "d"))))
			b = c.EncodeRaw(y, uint(rapid.IntRange(0, 1).Draw(t, "sign")))
		case "x=0-sign":
			y := big.NewInt(1)
			if rapid.Bool().Draw(t, "minus") {
				y = new(big.Int).Sub(c.P, big.NewInt(1))
			}
			b = c.EncodeRaw(y, 1)
		case "small-order":
			T := c.SmallOrderPoints()
			b = c.Encode(T[rapid.IntRange(0, 7).Draw(t, "i")])
		case "y-near-p":
			y := new(big.Int).Sub(c.P, big.NewInt(int64(rapid.IntRange(1, 64).Draw(t, "d"))))
			b = c.EncodeRaw(y, uint(rapid.IntRange(0, 1).Draw(t, "sign")))
		case "y=2^k-1":
			y := new(big.Int).Lsh(big.NewInt(1), uint(rapid.IntRange(1, 255).Draw(t, "k2")))
			y.Sub(y, big.NewInt(int64(rapid.IntRange(1, 3).Draw(t, "d2"))))
			b = c.EncodeRaw(y, uint(rapid.IntRange(0, 1).Draw(t, "sign")))
		}
		vlib.Eval(sub)
		var P pointR1
		ok := P.FromBytes(b)
		ref, why := c.DecodeStrict(b)
		vlib.Class(sub, "kind="+kind)
		switch {
		case ref == nil && ok:
			if vlib.Report(t, "C05/whitebox/ed25519.FromBytes/accepts-invalid/"+why, fmt.Sprintf("in=%x: RFC 8032 5.1.3 decoding fails (%s)", b, why)) {
				return
			}
		case ref != nil && !ok:
			if vlib.Report(t, "C05/whitebox/ed25519.FromBytes/rejects-valid", fmt.Sprintf("in=%x", b)) {
				return
			}
		case ref != nil:
			if got := c05Enc(&P); !bytes.Equal(got, b) {
				if vlib.Report(t, "C05/whitebox/ed25519.FromBytes/wrong-point", fmt.Sprintf("in=%x re-encoded=%x", b, got)) {
					return
				}
			}
		}
		if kind != "valid" {
			vlib.NonTrivial(sub, "", b)
		}
	})
}

// c05TinyPoint draws a curve point one of whose affine coordinates has a second representative
// below the element width (y resp. x < 2^(8*size) - p: 19 for edwards25519, 2^224+1 for edwards448),
// or a general point. Encoders end in a final reduction of y and take the sign from the reduced x.
func c05TinyPoint(t *rapid.T, c *edwards.Curve, size int) (x, y *big.Int, cls string) {
	width := new(big.Int).Lsh(big.NewInt(1), uint(8*size))
	if size == 32 {
		width.Rsh(width, 1)
	}
	bound := new(big.Int).Sub(width, c.P)
	for try := 0; try < 64; try++ {
		b := make([]byte, (bound.BitLen()+7)/8)
		vlib.FillRandom(t, b, fmt.Sprintf("tv%d", try))
		v := vlib.FromLE(b)
		v.Mod(v, bound)
		switch rapid.IntRange(0, 2).Draw(t, fmt.Sprintf("tk%d", try)) {
		case 0:
			v = big.NewInt(int64(rapid.IntRange(0, 18).Draw(t, fmt.Sprintf("ts%d", try))))
		case 1:
			v.Rsh(v, uint(rapid.IntRange(0, bound.BitLen()).Draw(t, fmt.Sprintf("tr%d", try))))
		}
		sign := rapid.Bool().Draw(t, fmt.Sprintf("tg%d", try))
		if rapid.Bool().Draw(t, fmt.Sprintf("tc%d", try)) {
			// tiny y
			p, _ := c.DecodeStrict(c.EncodeRaw(v, map[bool]uint{false: 0, true: 1}[sign]))
			if p == nil {
				continue
			}
			x, y = c.Affine(p)
			return x, y, "tiny-y"
		}
		yy, ok := c.RecoverY(v, sign)
		if !ok {
			continue
		}
		return v, yy, "tiny-x"
	}
	k := big.NewInt(int64(rapid.IntRange(1, 1<<30).Draw(t, "gk")))
	x, y = c.Affine(c.ScalarMult(k, c.Base()))
	return x, y, "general"
}

// c05Proj returns X = x*Z, Y = y*Z in a drawn representative (canonical or +p where it fits).
func c05Proj(t *rapid.T, c *edwards.Curve, size int, x, y *big.Int) (X, Y, Z *big.Int) {
	width := new(big.Int).Lsh(big.NewInt(1), uint(8*size))
	Z, _ = vlib.FieldOperand(t, c.P, 8*size, 1, false, "Z")
	if new(big.Int).Mod(Z, c.P).Sign() == 0 || rapid.IntRange(0, 3).Draw(t, "z1") == 0 {
		Z = big.NewInt(1)
	}
	rep := func(v *big.Int, l string) *big.Int {
		r := new(big.Int).Mul(v, Z)
		r.Mod(r, c.P)
		if rp := new(big.Int).Add(r, c.P); rp.Cmp(width) < 0 && rapid.Bool().Draw(t, l) {
			return rp
		}
		return r
	}
	return rep(x, "xrep"), rep(y, "yrep"), Z
}

// TestVerifC05Encode: pointR1.ToBytes on projective inputs whose affine coordinates have two
// representatives (and general points), against the reference encoder.
func TestVerifC05Encode(t *testing.T) {
	defer vlib.Done()
	const sub = "whitebox/ed25519.ToBytes"
	c := edwards.Ed25519Curve
	vlib.Check(t, vlib.N(3000, 30000), func(t *rapid.T) {
		x, y, cls := c05TinyPoint(t, c, 32)
		X, Y, Z := c05Proj(t, c, 32, x, y)
		var P pointR1
		copy(P.x[:], vlib.LE(X, 32))
		copy(P.y[:], vlib.LE(Y, 32))
		copy(P.z[:], vlib.LE(Z, 32))
		P.ta, P.tb = P.x, P.y
		vlib.Eval(sub)
		got := make([]byte, 32)
		for i := range got {
			got[i] = 0xa5
		}
		err := P.ToBytes(got)
		want := c.Encode(c.FromAffine(x, y))
		if err != nil || !bytes.Equal(got, want) {
			if vlib.Report(t, "C05/whitebox/ed25519.ToBytes/wrong-encoding", fmt.Sprintf("x=%x y=%x (%s) X=%x Y=%x Z=%x got=%x want=%x err=%v", x, y, cls, X, Y, Z, got, want, err)) {
				return
			}
		}
		vlib.Class(sub, "point="+cls)
		if cls != "general" {
			vlib.NonTrivial(sub, "", X.Bytes(), Y.Bytes(), Z.Bytes())
		}
	})
}
