//go:build verif

// C12 white-box (light; property C05 owns the detailed sweep): the Ed25519
// scalar reduction red512 / reduceModOrder / calculateS against math/big.
package ed25519

import (
	"encoding/binary"
	"fmt"
	"math/big"
	"testing"

	"github.com/cloudflare/circl/zz_verif/c12/kit"
	"github.com/cloudflare/circl/zz_verif/vlib"
	"pgregory.net/rapid"
)

var c12L = kit.Hex("1000000000000000000000000000000014def9dea2f79cd65812631a5cf5d3ed")

func c12Words(v *big.Int) (x [8]uint64) {
	b := vlib.LE(v, 64)
	for i := range x {
		x[i] = binary.LittleEndian.Uint64(b[8*i:])
	}
	return
}

func c12Unwords(x *[8]uint64) *big.Int {
	out := make([]byte, 64)
	for i := range x {
		binary.LittleEndian.PutUint64(out[8*i:], x[i])
	}
	return vlib.FromLE(out)
}

// c12Judge compares with the canonical residue. The deviation already known
// from property C05 (no "add L back" after a borrowing last subtraction: the
// result is want − L + 2^256) has a key of its own.
func c12Judge(c *kit.Case, got, want *big.Int) bool {
	if got.Cmp(want) == 0 {
		return true
	}
	d := new(big.Int).Sub(got, want)
	if d.Cmp(new(big.Int).Sub(kit.Pow2(256), c12L)) == 0 {
		vlib.Report(c.T, "C12/"+c.Type+"/"+c.Op+"/missing-final-correction", fmt.Sprintf("%v got=%x want=%x (= want − L + 2^256)", c.Vals, got, want))
		return false
	}
	c.Fail("wrong-residue", fmt.Sprintf("got=%x want=%x", got, want))
	return false
}

func TestVerifC12Ed25519Scalar(t *testing.T) {
	defer vlib.Done()
	if vlib.FromLE(order[:]).Cmp(c12L) != 0 {
		vlib.ReportDirect(t, "C12/ed25519.scalar/order/const/wrong-constant", "order is not L", nil)
		return
	}
	f512 := &kit.F{Name: "ed25519.scalar", P: c12L, Bits: 512, C: 1}
	f256 := &kit.F{Name: "ed25519.scalar", P: c12L, Bits: 256, C: 1}
	fred := &kit.F{Name: "ed25519.scalar", P: c12L, Bits: 256, C: 1, Reduced: true}
	clampv := func(v *big.Int) *big.Int {
		b := vlib.LE(v, 32)
		clamp(b)
		return vlib.FromLE(b)
	}
	vlib.Check(t, vlib.N(15000, 100000), func(t *rapid.T) {
		op := rapid.SampledFrom([]string{"red512", "red512", "reduceModOrder256", "calculateS", "isLessThanOrder"}).Draw(t, "op")
		c := &kit.Case{T: t, Type: "ed25519.scalar", Op: op, Backend: "go"}
		switch op {
		case "red512":
			// any 512-bit integer (it is fed SHA-512 outputs and r + k·a)
			v, cls := f512.Operand(t, "x")
			if rapid.IntRange(0, 4).Draw(t, "shape") == 0 {
				// q·2^252 + small: what is left for the last step when the folding leaves a tiny low part
				q := int64(rapid.IntRange(0, 40).Draw(t, "q"))
				sm := vlib.Limbs(t, rapid.IntRange(1, 2).Draw(t, "sw"), 1, "s")
				v = new(big.Int).Add(new(big.Int).Lsh(big.NewInt(q), 252), sm)
				cls = "q*2^252+small"
			}
			c.Vals, c.Classes = []*big.Int{v}, []string{cls}
			x := c12Words(v)
			red512(&x, true)
			if !c12Judge(c, c12Unwords(&x), kit.Mod(v, c12L)) {
				return
			}
			k := vlib.LE(v, 64)
			reduceModOrder(k, true)
			if vlib.FromLE(k).Cmp(kit.Mod(v, c12L)) != 0 {
				c.Fail("reduceModOrder-differs", fmt.Sprintf("reduceModOrder gave %x", vlib.FromLE(k)))
				return
			}
		case "reduceModOrder256":
			// the only 256-bit caller passes a clamped SHA-512 half
			v, cls := f256.Operand(t, "x")
			v = clampv(v)
			c.Vals, c.Classes = []*big.Int{v}, []string{cls + "+clamped"}
			k := vlib.LE(v, 32)
			reduceModOrder(k, false)
			if !c12Judge(c, vlib.FromLE(k), kit.Mod(v, c12L)) {
				return
			}
		case "calculateS":
			r, rc := fred.Operand(t, "r")
			k, kc := fred.Operand(t, "k")
			a, ac := f256.Operand(t, "a")
			a = clampv(a)
			c.Vals, c.Classes = []*big.Int{r, k, a}, []string{rc, kc, ac + "+clamped"}
			s := make([]byte, 32)
			calculateS(s, vlib.LE(r, 32), vlib.LE(k, 32), vlib.LE(a, 32))
			w := new(big.Int).Mul(k, a)
			w.Add(w, r)
			if !c12Judge(c, vlib.FromLE(s), w.Mod(w, c12L)) {
				return
			}
		case "isLessThanOrder":
			v, cls := f256.Operand(t, "x")
			c.Vals, c.Classes = []*big.Int{v}, []string{cls}
			want := v.Cmp(c12L) < 0
			vlib.Class("ed25519.scalar", fmt.Sprintf("isLessThanOrder=%v", want))
			if isLessThanOrder(vlib.LE(v, 32)) != want || isLessThan(vlib.LE(v, 32), order[:]) != want {
				c.Fail("wrong-predicate", fmt.Sprintf("want %v", want))
				return
			}
		}
		c.Done()
	})
}
