//go:build verif

// C04 white-box part for the public ML-DSA package: hedged signing with chosen
// rnd through the unexported unsafeSignInternal / unsafeVerifyInternal
// ("used for compatibility tests") and the public framing on top of it.
package mldsa87

import (
	"bytes"
	"fmt"
	"testing"

	"github.com/cloudflare/circl/zz_verif/ref/mldsa"
	"github.com/cloudflare/circl/zz_verif/vlib"
	"pgregory.net/rapid"
)

func TestC04UnsafeInternal(t *testing.T) {
	defer vlib.Done()
	note, err := mldsa.SelfTest(vlib.Harness, false)
	if err != nil {
		vlib.Selftest("ref/mldsa", "FAIL: "+err.Error())
		vlib.Done()
		t.Fatalf("SELFTEST-FAIL ref/mldsa: %v", err)
	}
	vlib.Selftest("ref/mldsa", note)
	name := Scheme().Name()
	p := mldsa.ByName(name)
	if p == nil {
		t.Fatalf("SELFTEST-FAIL no reference parameter set %q", name)
	}
	sub := "hedged-public/" + name
	vlib.Check(t, vlib.N(40, 600), func(t *rapid.T) {
		vlib.Eval(sub)
		var seed [SeedSize]byte
		copy(seed[:], vlib.EdgeBytes(t, 32, "seed"))
		var rnd [32]byte
		copy(rnd[:], vlib.EdgeBytes(t, 32, "rnd"))
		msg := vlib.Msg(t, "msg")
		ctx := vlib.Bytes(t, 0, 255, "ctx")
		if rapid.IntRange(0, 3).Draw(t, "noctx") == 0 {
			ctx = nil
		}
		pk, sk := NewKeyFromSeed(&seed)
		rpk, rsk := p.KeyGen(seed[:])
		if !bytes.Equal(pk.Bytes(), rpk) || !bytes.Equal(sk.Bytes(), rsk) {
			if vlib.Report(t, "C04/keygen/"+name+"/whitebox", fmt.Sprintf("seed %x: key bytes differ from the specification", seed)) {
				return
			}
		}
		mp := mldsa.Frame(msg, ctx)
		want, tr := p.SignInternal(rsk, mp, rnd[:])
		var got []byte
		if pn, st := vlib.Catch(func() { got = sk.unsafeSignInternal(mp, rnd) }); pn != nil {
			vlib.Report(t, "C04/panic/"+name+"/unsafeSignInternal/"+vlib.PanicClass(pn), fmt.Sprintf("seed %x rnd %x: %v\n%s", seed, rnd, pn, st))
			return
		}
		if !bytes.Equal(got, want) {
			if vlib.Report(t, "C04/sign/"+name+"/hedged", fmt.Sprintf("seed %x rnd %x msg %s ctx %s: unsafeSignInternal differs from ML-DSA.Sign_internal (reference needed %d rounds)", seed, rnd, vlib.Hex(msg), vlib.Hex(ctx), len(tr.Rounds))) {
				return
			}
		}
		if rnd != [32]byte{} {
			vlib.Class(sub, "rnd-nonzero")
		} else {
			// rnd = 0 is the deterministic variant: the public SignTo must give the same bytes
			sig := make([]byte, SignatureSize)
			if err := SignTo(sk, msg, ctx, false, sig); err != nil || !bytes.Equal(sig, want) {
				if vlib.Report(t, "C04/sign/"+name+"/deterministic-vs-internal", fmt.Sprintf("seed %x: SignTo(randomized=false) differs from Sign_internal with rnd=0 on the framed message (err=%v)", seed, err)) {
					return
				}
			}
			vlib.Class(sub, "rnd-zero")
		}
		if len(tr.Rounds) >= 2 {
			vlib.NonTrivial(sub, "signing-needed>=2-rounds", seed[:], rnd[:], mp)
		}
		// a hedged signature must verify through the public, framed interface
		if !Verify(pk, msg, ctx, got) || !unsafeVerifyInternal(pk, mp, got) {
			if vlib.Report(t, "C04/verify-verdict/"+name+"/hedged-honest", fmt.Sprintf("seed %x rnd %x: hedged signature rejected", seed, rnd)) {
				return
			}
		}
		// public randomized signing: bytes are unpredictable, but the result must be a valid signature by the specification
		if rapid.IntRange(0, 3).Draw(t, "rand") == 0 {
			sig := make([]byte, SignatureSize)
			if err := SignTo(sk, msg, ctx, true, sig); err != nil {
				vlib.Report(t, "C04/sign/"+name+"/randomized-error", err.Error())
				return
			}
			if ok, why := p.Verify(rpk, msg, ctx, sig); !ok {
				if vlib.Report(t, "C04/sign/"+name+"/randomized-invalid", fmt.Sprintf("seed %x: SignTo(randomized=true) produced a signature the specification rejects (%s)", seed, why)) {
					return
				}
			}
			vlib.Class(sub, "randomized-verifies")
		}
		// Verify_internal verdict on an altered M' / signature
		m := vlib.Mutate(t, got, nil, "sig")
		gv := false
		if pn, st := vlib.Catch(func() { gv = unsafeVerifyInternal(pk, mp, m.Out) }); pn != nil {
			vlib.Report(t, "C04/panic/"+name+"/unsafeVerifyInternal/"+vlib.PanicClass(pn), fmt.Sprintf("%s: %v\n%s", m.Kind, pn, st))
			return
		}
		if wv := p.VerifyInternal(rpk, mp, m.Out); gv != wv {
			cls := "internal-mutated"
			if len(m.Out) > p.SigSize() {
				cls = "trailing-bytes"
			}
			if vlib.Report(t, "C04/verify-verdict/"+name+"/"+cls, fmt.Sprintf("unsafeVerifyInternal(%s) = %v, specification %v", m.Kind, gv, wv)) {
				return
			}
		}
	})
}
