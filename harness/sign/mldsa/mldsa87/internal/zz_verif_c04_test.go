//go:build verif

// C04 white-box part for one generated Dilithium/ML-DSA mode package (the
// same file is overlaid into all six `internal` packages; the parameter set is
// taken from the package constants). Exhaustive sweeps of decompose / useHint /
// makeHint, packing against the reference's bit-level packer, the samplers
// (incl. the four-way variants) against the reference's Algorithms 29-34, and
// hedged signing through internal.SignTo with chosen rnd.
package internal

import (
	"bytes"
	"fmt"
	"io"
	"testing"

	common "github.com/cloudflare/circl/sign/internal/dilithium"
	"github.com/cloudflare/circl/zz_verif/ref/mldsa"
	"github.com/cloudflare/circl/zz_verif/vlib"
	"pgregory.net/rapid"
)

var c04P = mldsa.ByName(Name)

func c04Selftest(t *testing.T) {
	t.Helper()
	note, err := mldsa.SelfTest(vlib.Harness, false)
	if err != nil {
		vlib.Selftest("ref/mldsa", "FAIL: "+err.Error())
		vlib.Done()
		t.Fatalf("SELFTEST-FAIL ref/mldsa: %v", err)
	}
	vlib.Selftest("ref/mldsa", note)
	p := c04P
	if p == nil || p.K != K || p.L != L || p.Eta != Eta || p.Tau != Tau || p.Omega != Omega || p.Gamma1 != Gamma1 || p.Gamma2 != Gamma2 ||
		p.CTilde != CTildeSize || p.TR != TRSize || p.R31 == NIST || p.SigSize() != SignatureSize || p.PKSize() != PublicKeySize || p.SKSize() != PrivateKeySize {
		// the parameter table is part of the specification
		vlib.ReportDirect(t, "C04/params/"+Name, fmt.Sprintf("package constants differ from the specification's parameter set: %+v", p), nil)
	}
}

const c04M = (common.Q - 1) / Alpha // number of high-bits values

// TestC04Rounding: decompose and useHint over all of [0,q) (x {0,1}), makeHint
// over [0,q) x all r1 (strided in the quick tier), the polynomial-level
// re-implementations, and the documented makeHint/useHint round trip.
func TestC04Rounding(t *testing.T) {
	defer vlib.Done()
	c04Selftest(t)
	name := Name
	const q = common.Q
	// reference tables over [0,q)
	hb := make([]uint8, q)
	for a := int64(0); a < q; a++ {
		hb[a] = uint8(mldsa.HighBits(a, Gamma2))
	}
	var n int64
	for a := uint32(vlib.Shard); a < q; a += uint32(vlib.NShards) {
		r1, r0 := mldsa.Decompose(int64(a), Gamma2)
		a0q, a1 := decompose(a)
		n++
		if int64(a1) != r1 || int64(a0q) != r0+q {
			vlib.ReportDirect(t, "C04/rounding/"+name+"/decompose", fmt.Sprintf("decompose(%d) = (%d+q, %d), specification (r0=%d, r1=%d)", a, int64(a0q)-q, a1, r0, r1), map[string]interface{}{"a": a})
			return
		}
		for h := uint32(0); h < 2; h++ {
			if g, w := useHint(a, h), mldsa.UseHint(int64(h), int64(a), Gamma2); int64(g) != w {
				// (a known finding is counted and the sweep continues)
				if !vlib.ReportDirect(t, "C04/rounding/"+name+"/useHint", fmt.Sprintf("useHint(%d, %d) = %d, specification %d", a, h, g, w), map[string]interface{}{"a": a, "h": h}) {
					return
				}
			}
		}
	}
	vlib.EvalN("exhaustive/decompose+useHint/"+name, 3*n)
	if vlib.Shard == 0 {
		vlib.Exhaustive(name+": decompose over [0,q), useHint over [0,q)x{0,1}", 3*q, "all shards together; compared with FIPS 204 Decompose / UseHint")
	}
	// polynomial-level variants on consecutive values (PolyUseHint is a separate implementation)
	n = 0
	for base := uint32(vlib.Shard) * common.N; base < q; base += uint32(vlib.NShards) * common.N {
		var p, p0, p1, hint, out common.Poly
		for j := range p {
			p[j] = (base + uint32(j)) % q
		}
		PolyDecompose(&p, &p0, &p1)
		for hv := uint32(0); hv < 3; hv++ {
			for j := range hint {
				switch hv {
				case 2:
					hint[j] = uint32(j+int(base/common.N)) & 1
				default:
					hint[j] = hv
				}
			}
			PolyUseHint(&out, &p, &hint)
			n++
			for j := range p {
				r1, r0 := mldsa.Decompose(int64(p[j]), Gamma2)
				if int64(p1[j]) != r1 || int64(p0[j]) != r0+q {
					vlib.ReportDirect(t, "C04/rounding/"+name+"/PolyDecompose", fmt.Sprintf("PolyDecompose at %d", p[j]), map[string]interface{}{"a": p[j]})
					return
				}
				if w := mldsa.UseHint(int64(hint[j]), int64(p[j]), Gamma2); int64(out[j]) != w {
					vlib.ReportDirect(t, "C04/rounding/"+name+"/PolyUseHint", fmt.Sprintf("PolyUseHint coefficient %d hint %d = %d, specification %d", p[j], hint[j], out[j], w), map[string]interface{}{"a": p[j], "h": hint[j]})
					return
				}
			}
		}
	}
	vlib.EvalN("exhaustive/PolyDecompose+PolyUseHint/"+name, n)
	// makeHint(z0, r1) = [HighBits(r1*alpha + z0) != r1]  (FIPS 204 MakeHint(-ct0, w-cs2+ct0) with
	// r = w - cs2 = r1*alpha + r0 and z0 = r0 + ct0)
	stride := uint32(1)
	if !vlib.Thorough() {
		stride = 23
	}
	n = 0
	mh := func(z0, r1 uint32) bool {
		n++
		want := uint32(0)
		if hb[(uint64(r1)*Alpha+uint64(z0))%q] != uint8(r1) {
			want = 1
		}
		if g := makeHint(z0, r1); g != want {
			vlib.ReportDirect(t, "C04/rounding/"+name+"/makeHint", fmt.Sprintf("makeHint(z0=%d, r1=%d) = %d, specification %d", z0, r1, g, want), map[string]interface{}{"z0": z0, "r1": r1})
			return false
		}
		return true
	}
	for z0 := uint32(vlib.Shard)*stride + uint32(vlib.Seed)%stride; z0 < q; z0 += stride * uint32(vlib.NShards) {
		for r1 := uint32(0); r1 < c04M; r1++ {
			if !mh(z0, r1) {
				return
			}
		}
	}
	for _, c := range []uint32{0, Gamma2, 2 * Gamma2, q - Gamma2, q - 2*Gamma2, (q - 1) / 2, q - 1} {
		for d := -40; d <= 40; d++ {
			z0 := (int64(c) + int64(d) + q) % q
			for r1 := uint32(0); r1 < c04M; r1++ {
				if !mh(uint32(z0), r1) {
					return
				}
			}
		}
	}
	vlib.EvalN("sweep/makeHint/"+name, n)
	if vlib.Thorough() && vlib.Shard == 0 {
		vlib.Exhaustive(name+": makeHint over [0,q) x [0,(q-1)/alpha)", int64(q)*int64(c04M), "all shards together")
	}
	// documented round trip: useHint(r - f, makeHint(r0 - f, r1)) = r1 for |f| <= alpha/2
	n = 0
	fs := []int64{-Gamma2, -Gamma2 + 1, -Gamma2 / 2, -1, 0, 1, Gamma2 / 2, Gamma2 - 1, Gamma2}
	for r := uint32(vlib.Shard)*7 + uint32(vlib.Seed)%7; r < q; r += 7 * uint32(vlib.NShards) {
		r0q, r1 := decompose(r)
		for _, f := range fs {
			n++
			z0 := uint32((int64(r0q) - f + 2*q) % q)
			rp := uint32((int64(r) - f + q) % q)
			// (the specification's UseHint is applied to circl's hint, so that this check isolates makeHint;
			// the scalar useHint itself is compared exhaustively above)
			if g := mldsa.UseHint(int64(makeHint(z0, r1)), int64(rp), Gamma2); g != int64(r1) {
				vlib.ReportDirect(t, "C04/rounding/"+name+"/hint-roundtrip", fmt.Sprintf("r=%d f=%d: UseHint(r-f, makeHint(r0-f, r1)) = %d, r1 = %d", r, f, g, r1), map[string]interface{}{"r": r, "f": f})
				return
			}
		}
	}
	vlib.EvalN("sweep/hint-roundtrip/"+name, n)
}

// TestC04Packing: LeqEta, LeGamma1, W1 and hint encodings against the
// reference's generic bit packer; every value at every position class.
func TestC04Packing(t *testing.T) {
	defer vlib.Done()
	c04Selftest(t)
	name := Name
	p := c04P
	const q = common.Q
	var n int64
	// LeqEta: centred values [-eta, eta] stored as q + v
	per := 8
	vals := int(2*Eta + 1)
	for shift := 0; shift < per*vals; shift++ {
		var cp common.Poly
		var rp mldsa.Poly
		for j := range cp {
			v := int64((j+shift+j/per)%vals) - Eta
			cp[j] = uint32(q + v)
			rp[j] = (v + q) % q
		}
		var buf [PolyLeqEtaSize]byte
		PolyPackLeqEta(&cp, buf[:])
		n++
		if want := mldsa.BitPack(&rp, Eta, Eta); !bytes.Equal(buf[:], want) {
			vlib.ReportDirect(t, "C04/pack/"+name+"/LeqEta", "PolyPackLeqEta differs from BitPack(eta, eta)", nil)
			return
		}
		var back common.Poly
		PolyUnpackLeqEta(&back, buf[:])
		if back != cp {
			vlib.ReportDirect(t, "C04/pack/"+name+"/LeqEta", "PolyUnpackLeqEta(PolyPackLeqEta(p)) != p", nil)
			return
		}
	}
	vlib.Exhaustive(name+": LeqEta packing, every value in [-eta,eta] at every position class", int64(per*vals), "")
	// LeGamma1: centred values (-gamma1, gamma1], normalized
	pos := 4
	for shift := 0; shift < pos; shift++ {
		for base := int64(0); base < 2*Gamma1; base += common.N {
			var cp common.Poly
			var rp mldsa.Poly
			for j := range cp {
				v := Gamma1 - (base+int64(j))%(2*Gamma1) // gamma1 .. -gamma1+1
				cp[(j+shift)%common.N] = uint32((v + q) % q)
				rp[(j+shift)%common.N] = (v + q) % q
			}
			var buf [PolyLeGamma1Size]byte
			PolyPackLeGamma1(&cp, buf[:])
			n++
			if want := mldsa.BitPack(&rp, Gamma1-1, Gamma1); !bytes.Equal(buf[:], want) {
				vlib.ReportDirect(t, "C04/pack/"+name+"/LeGamma1", fmt.Sprintf("PolyPackLeGamma1 differs from BitPack(gamma1-1, gamma1) (base %d shift %d)", base, shift), nil)
				return
			}
			var back common.Poly
			PolyUnpackLeGamma1(&back, buf[:])
			if back != cp {
				vlib.ReportDirect(t, "C04/pack/"+name+"/LeGamma1", fmt.Sprintf("PolyUnpackLeGamma1(PolyPackLeGamma1(p)) != p (base %d shift %d)", base, shift), nil)
				return
			}
		}
	}
	vlib.Exhaustive(name+": LeGamma1 packing, every value in (-gamma1,gamma1] at every position class (mod 4)", int64(pos)*2*Gamma1, "")
	// W1
	for shift := 0; shift < 4*int(c04M); shift++ {
		var cp common.Poly
		var rp mldsa.Poly
		for j := range cp {
			v := uint32((j + shift + j/4) % int(c04M))
			cp[j] = v
			rp[j] = int64(v)
		}
		var buf [PolyW1Size]byte
		PolyPackW1(&cp, buf[:])
		n++
		bits := 4
		if c04M == 44 {
			bits = 6
		}
		if want := mldsa.SimpleBitPack(&rp, bits); !bytes.Equal(buf[:], want) {
			vlib.ReportDirect(t, "C04/pack/"+name+"/W1", "PolyPackW1 differs from SimpleBitPack", nil)
			return
		}
	}
	vlib.EvalN("packing/"+name, n)

	// arbitrary bytes through the decoders; hint vectors
	sub := "packing-random/" + name
	vlib.Check(t, vlib.N(600, 12000), func(t *rapid.T) {
		vlib.Eval(sub)
		var bz [PolyLeGamma1Size]byte
		vlib.FillRandom(t, bz[:], "z")
		switch rapid.IntRange(0, 9).Draw(t, "zfill") {
		case 0:
			for i := range bz {
				bz[i] = 0
			}
		case 1:
			for i := range bz {
				bz[i] = 0xff
			}
		}
		var cp common.Poly
		PolyUnpackLeGamma1(&cp, bz[:])
		want := mldsa.BitUnpack(bz[:], Gamma1-1, Gamma1)
		for i := range cp {
			if int64(cp[i]) != want[i] {
				vlib.Report(t, "C04/pack/"+name+"/LeGamma1", fmt.Sprintf("PolyUnpackLeGamma1 coefficient %d = %d, reference %d", i, cp[i], want[i]))
				return
			}
		}
		// hints: a random vector of weight <= omega, then a mutated encoding
		var hv VecK
		rh := make([]mldsa.Poly, K)
		w := rapid.IntRange(0, Omega).Draw(t, "weight")
		if rapid.IntRange(0, 3).Draw(t, "full") == 0 {
			w = Omega
		}
		var rnd [2 * 256]byte
		vlib.FillRandom(t, rnd[:], "hpos")
		cluster := rapid.Bool().Draw(t, "cluster")
		for i, placed := 0, 0; placed < w && i < 256; i++ {
			pi := int(rnd[2*i]) % K
			if cluster {
				pi = int(rnd[0]) % K
			}
			pj := int(rnd[2*i+1])
			if hv[pi][pj] == 0 {
				hv[pi][pj] = 1
				rh[pi][pj] = 1
				placed++
			}
		}
		var hb [Omega + K]byte
		for i := range hb {
			hb[i] = 0xaa // PackHint must overwrite everything
		}
		hv.PackHint(hb[:])
		wantH := p.HintBitPack(rh)
		// the vector packers are called on the tail of larger buffers (buf[offset:]): surplus bytes stay untouched
		long := make([]byte, Omega+K+23)
		for i := range long {
			long[i] = 0x5a
		}
		hv.PackHint(long)
		if !bytes.Equal(long[:Omega+K], wantH) || !bytes.Equal(long[Omega+K:], bytes.Repeat([]byte{0x5a}, 23)) {
			vlib.Report(t, "C04/pack/"+name+"/PackHint", fmt.Sprintf("PackHint into a longer buffer = %x, specification %x followed by untouched bytes", long, wantH))
			return
		}
		if !bytes.Equal(hb[:], wantH) {
			vlib.Report(t, "C04/pack/"+name+"/PackHint", fmt.Sprintf("PackHint = %x, specification %x", hb, wantH))
			return
		}
		enc := append([]byte{}, hb[:]...)
		kind := rapid.SampledFrom([]string{"valid", "byte", "byte", "sop", "swap", "random", "ramp", "ramp"}).Draw(t, "hmut")
		switch kind {
		case "ramp":
			// strictly increasing index ramp over all omega bytes; counts drawn over 0..255: continuing the ramp,
			// increasing, equal, decreasing, random (incl. values above omega and above omega+k)
			step := rapid.IntRange(1, 255/(Omega+K)).Draw(t, "step")
			start := rapid.IntRange(0, 255-step*(Omega+K-1)).Draw(t, "start")
			for i := range enc {
				enc[i] = byte(start + i*step)
			}
			cm := rapid.IntRange(0, 5).Draw(t, "countmode")
			c0 := rapid.IntRange(0, 255).Draw(t, "c0")
			dc := rapid.IntRange(0, 12).Draw(t, "dc")
			for i := 0; i < K; i++ {
				v := int(enc[Omega+i])
				switch cm {
				case 1:
					v = c0 + i*dc
				case 2:
					v = c0
				case 3:
					v = c0 - i*dc
				case 4:
					v = int(rapid.Byte().Draw(t, "cnt"))
				case 5:
					v = (c0 % (Omega + 1)) * (i + 1) / K
				}
				if v < 0 {
					v = 0
				}
				if v > 255 {
					v = 255
				}
				enc[Omega+i] = byte(v)
			}
		case "byte":
			i := rapid.IntRange(0, len(enc)-1).Draw(t, "hi")
			enc[i] = rapid.Byte().Draw(t, "hb")
		case "sop":
			i := rapid.IntRange(Omega, len(enc)-1).Draw(t, "hi")
			enc[i] = byte(rapid.IntRange(0, Omega+2).Draw(t, "hb"))
		case "swap":
			i := rapid.IntRange(0, Omega-2).Draw(t, "hi")
			enc[i], enc[i+1] = enc[i+1], enc[i]
		case "random":
			vlib.FillRandom(t, enc, "henc")
			for i := Omega; i < len(enc); i++ {
				enc[i] %= byte(Omega + 2)
			}
		}
		var got VecK
		var ok bool
		if pn, st := vlib.Catch(func() { ok = got.UnpackHint(enc) }); pn != nil {
			vlib.Report(t, "C04/panic/"+name+"/UnpackHint/"+vlib.PanicClass(pn), fmt.Sprintf("enc %x: %v\n%s", enc, pn, st))
			return
		}
		ref, rok := p.HintBitUnpack(enc, false)
		vlib.Class(sub, fmt.Sprintf("hint-%s→%v", kind, rok))
		if ok != rok {
			vlib.Report(t, "C04/pack/"+name+"/UnpackHint", fmt.Sprintf("UnpackHint(%x) = %v, specification %v (mutation %s)", enc, ok, rok, kind))
			return
		}
		if ok {
			for i := 0; i < K; i++ {
				for j := 0; j < common.N; j++ {
					if int64(got[i][j]) != ref[i][j] {
						vlib.Report(t, "C04/pack/"+name+"/UnpackHint", fmt.Sprintf("UnpackHint(%x): h[%d][%d] = %d, specification %d", enc, i, j, got[i][j], ref[i][j]))
						return
					}
				}
			}
			vlib.NonTrivial(sub, "hint-decoded", enc)
		}
	})
}

// TestC04Sampling: ExpandA / ExpandS / ExpandMask / SampleInBall incl. the
// four-way variants against the reference's Algorithms 29-34.
func TestC04Sampling(t *testing.T) {
	defer vlib.Done()
	c04Selftest(t)
	name := Name
	p := c04P
	sub := "sampling/" + name
	if !c04SamplerTails(t, name, sub) {
		return
	}
	vlib.Check(t, vlib.N(150, 2000), func(t *rapid.T) {
		vlib.Eval(sub)
		var seed32 [32]byte
		var seed64 [64]byte
		copy(seed32[:], vlib.EdgeBytes(t, 32, "seed32"))
		copy(seed64[:], vlib.EdgeBytes(t, 64, "seed64"))
		nonce := uint16(rapid.SampledFrom([]int{0, 1, 255, 256, 257, 0x7fff, 0xffff, -1}).Draw(t, "nonce"))
		if rapid.Bool().Draw(t, "rndnonce") {
			nonce = rapid.Uint16().Draw(t, "nonce16")
		}
		le := []byte{byte(nonce), byte(nonce >> 8)}
		var cp common.Poly
		cmp := func(what string, got *common.Poly, want *mldsa.Poly) bool {
			for i := range got {
				if int64(got[i]%common.Q) != want[i] {
					vlib.Report(t, "C04/sample/"+name+"/"+what, fmt.Sprintf("seed %x/%x nonce %d: coefficient %d = %d, specification %d", seed32, seed64[:8], nonce, i, got[i], want[i]))
					return false
				}
			}
			return true
		}
		// RejNTTPoly
		PolyDeriveUniform(&cp, &seed32, nonce)
		want := mldsa.RejNTTPoly(append(append([]byte{}, seed32[:]...), le...))
		if !cmp("PolyDeriveUniform", &cp, &want) {
			return
		}
		if DeriveX4Available {
			var ps [4]common.Poly
			nonces := [4]uint16{nonce, nonce + 1, nonce ^ 0x100, uint16(rapid.Uint16().Draw(t, "n4"))}
			ptr := [4]*common.Poly{&ps[0], &ps[1], &ps[2], &ps[3]}
			skip := rapid.IntRange(0, 7).Draw(t, "nilidx")
			if skip < 4 {
				ptr[skip] = nil
			}
			PolyDeriveUniformX4(ptr, &seed32, nonces)
			for i := 0; i < 4; i++ {
				if ptr[i] == nil {
					continue
				}
				w := mldsa.RejNTTPoly(append(append([]byte{}, seed32[:]...), byte(nonces[i]), byte(nonces[i]>>8)))
				if !cmp("PolyDeriveUniformX4", &ps[i], &w) {
					return
				}
			}
			vlib.Class(sub, "x4")
		}
		// whole matrix
		if rapid.IntRange(0, 3).Draw(t, "mat") == 0 {
			var m Mat
			m.Derive(&seed32)
			A := p.ExpandA(seed32[:])
			for i := 0; i < K; i++ {
				for j := 0; j < L; j++ {
					if !cmp("Mat.Derive", &m[i][j], &A[i][j]) {
						return
					}
				}
			}
			vlib.Class(sub, "matrix")
		}
		// RejBoundedPoly
		PolyDeriveUniformLeqEta(&cp, &seed64, nonce)
		want = p.RejBoundedPoly(append(append([]byte{}, seed64[:]...), le...))
		if !cmp("PolyDeriveUniformLeqEta", &cp, &want) {
			return
		}
		for i := range cp {
			if cp[i] < common.Q-Eta || cp[i] > common.Q+Eta {
				vlib.Report(t, "C04/sample/"+name+"/PolyDeriveUniformLeqEta", fmt.Sprintf("coefficient %d = %d outside the documented range [q-eta, q+eta]", i, cp[i]))
				return
			}
		}
		// ExpandMask
		PolyDeriveUniformLeGamma1(&cp, &seed64, nonce)
		if int(nonce)+L <= 0x10000 {
			y := p.ExpandMask(seed64[:], int(nonce))
			if !cmp("PolyDeriveUniformLeGamma1", &cp, &y[0]) {
				return
			}
			var v VecL
			VecLDeriveUniformLeGamma1(&v, &seed64, nonce)
			for i := 0; i < L; i++ {
				if !cmp("VecLDeriveUniformLeGamma1", &v[i], &y[i]) {
					return
				}
			}
		}
		// SampleInBall
		cseed := vlib.EdgeBytes(t, CTildeSize, "ctilde")
		PolyDeriveUniformBall(&cp, cseed)
		c := p.SampleInBall(cseed)
		if !cmp("PolyDeriveUniformBall", &cp, &c) {
			return
		}
		nz := 0
		for i := range cp {
			if cp[i] != 0 {
				nz++
			}
		}
		if nz != Tau {
			vlib.Report(t, "C04/sample/"+name+"/PolyDeriveUniformBall", fmt.Sprintf("weight %d, tau %d", nz, Tau))
			return
		}
		if DeriveX4Available {
			var ps [4]common.Poly
			ptr := [4]*common.Poly{&ps[0], &ps[1], &ps[2], &ps[3]}
			PolyDeriveUniformBallX4(ptr, cseed)
			for i := range ps {
				if !cmp("PolyDeriveUniformBallX4", &ps[i], &c) {
					return
				}
			}
		}
		vlib.NonTrivial(sub, "", seed32[:], seed64[:], le, cseed)
	})
}

// TestC04Hedged: internal.SignTo with chosen rnd (ML-DSA.Sign_internal, the
// hedged variant; for the round-3.1 modes rnd must be ignored), internal.Verify
// and unpackedSignature.Unpack against the reference.
func TestC04Hedged(t *testing.T) {
	defer vlib.Done()
	c04Selftest(t)
	name := Name
	p := c04P
	sub := "hedged/" + name
	vlib.Check(t, vlib.N(40, 400), func(t *rapid.T) {
		vlib.Eval(sub)
		var seed [32]byte
		copy(seed[:], vlib.EdgeBytes(t, 32, "seed"))
		var rnd [32]byte
		copy(rnd[:], vlib.EdgeBytes(t, 32, "rnd"))
		// M' is arbitrary here (Sign_internal); half of the cases use a well-formed pure frame
		mp := vlib.Msg(t, "mprime")
		if rapid.Bool().Draw(t, "framed") && NIST {
			mp = mldsa.Frame(mp, vlib.Bytes(t, 0, 255, "ctx"))
		}
		pk, sk := NewKeyFromSeed(&seed)
		var pkb [PublicKeySize]byte
		var skb [PrivateKeySize]byte
		pk.Pack(&pkb)
		sk.Pack(&skb)
		rpk, rsk := p.KeyGen(seed[:])
		if !bytes.Equal(pkb[:], rpk) || !bytes.Equal(skb[:], rsk) {
			if vlib.Report(t, "C04/keygen/"+name+"/internal", fmt.Sprintf("seed %x: key bytes differ from the specification", seed)) {
				return
			}
		}
		want, tr := p.SignInternal(rsk, mp, rnd[:])
		// the destination may be longer than SignatureSize and hold old data: the surplus must stay as it is
		surplus := rapid.SampledFrom([]int{0, 0, 1, 16, Omega + K, 200}).Draw(t, "surplus")
		sigBuf := make([]byte, SignatureSize+surplus)
		pre := rapid.SampledFrom([]byte{0x00, 0xff, 0xa5}).Draw(t, "prefill")
		for i := range sigBuf {
			sigBuf[i] = pre
		}
		sig := sigBuf[:SignatureSize]
		w := func(wr io.Writer) { _, _ = wr.Write(mp) }
		if pn, st := vlib.Catch(func() { SignTo(sk, w, rnd, sigBuf) }); pn != nil {
			vlib.Report(t, "C04/panic/"+name+"/internal.SignTo/"+vlib.PanicClass(pn), fmt.Sprintf("seed %x rnd %x surplus %d: %v\n%s", seed, rnd, surplus, pn, st))
			return
		}
		for _, b := range sigBuf[SignatureSize:] {
			if b != pre {
				if vlib.Report(t, "C04/sign/"+name+"/long-buffer-surplus", fmt.Sprintf("seed %x: internal.SignTo wrote behind SignatureSize (surplus %d)", seed, surplus)) {
					return
				}
				break
			}
		}
		if surplus > 0 {
			vlib.Class(sub, "long-destination")
		}
		if !bytes.Equal(sig[:], want) {
			if vlib.Report(t, "C04/sign/"+name+"/hedged", fmt.Sprintf("seed %x rnd %x M' %s: internal.SignTo differs from Sign_internal (reference needed %d rounds)", seed, rnd, vlib.Hex(mp), len(tr.Rounds))) {
				return
			}
		}
		if rnd != [32]byte{} {
			vlib.Class(sub, "rnd-nonzero")
		}
		if len(tr.Rounds) >= 2 {
			vlib.NonTrivial(sub, "signing-needed>=2-rounds", seed[:], rnd[:], mp)
		}
		z, r0, ct0, hw := tr.Counts()
		for i, v := range []int{z, r0, ct0, hw} {
			if v > 0 {
				vlib.Class(sub, []string{"branch=z-norm", "branch=r0-norm", "branch=ct0-overflow", "branch=hint-weight>omega"}[i])
			}
		}
		if !Verify(pk, w, sig[:]) {
			if vlib.Report(t, "C04/verify-verdict/"+name+"/internal-honest", fmt.Sprintf("seed %x rnd %x: internal.Verify rejects the signature", seed, rnd)) {
				return
			}
		}
		// signature decoding on an altered signature
		m := vlib.Mutate(t, want, nil, "sig")
		var us unpackedSignature
		var ok bool
		if pn, st := vlib.Catch(func() { ok = us.Unpack(m.Out) }); pn != nil {
			vlib.Report(t, "C04/panic/"+name+"/unpackedSignature.Unpack/"+vlib.PanicClass(pn), fmt.Sprintf("%s: %v\n%s", m.Kind, pn, st))
			return
		}
		wantOK := false
		if len(m.Out) == p.SigSize() {
			_, _, _, hok := p.SigDecode(m.Out, false)
			wantOK = hok && p.ZNorm(m.Out) < p.ZBound()
		}
		if ok != wantOK {
			cls := "decode"
			if len(m.Out) > p.SigSize() {
				cls = "trailing-bytes"
			}
			if vlib.Report(t, "C04/sig-decode/"+name+"/"+cls, fmt.Sprintf("unpackedSignature.Unpack(%s) = %v, specification %v", m.Kind, ok, wantOK)) {
				return
			}
		}
		gv := false
		if pn, st := vlib.Catch(func() { gv = Verify(pk, w, m.Out) }); pn != nil {
			vlib.Report(t, "C04/panic/"+name+"/internal.Verify/"+vlib.PanicClass(pn), fmt.Sprintf("%s: %v\n%s", m.Kind, pn, st))
			return
		}
		if wv := p.VerifyInternal(rpk, mp, m.Out); gv != wv {
			cls := "internal-mutated"
			if len(m.Out) > p.SigSize() {
				cls = "trailing-bytes"
			}
			if vlib.Report(t, "C04/verify-verdict/"+name+"/"+cls, fmt.Sprintf("internal.Verify(%s) = %v, specification %v", m.Kind, gv, wv)) {
				return
			}
		}
	})
}

// c04CmpPoly compares a sampled polynomial (mod q) with the reference outside rapid.
func c04CmpPoly(t *testing.T, name, what, input string, got *common.Poly, want *mldsa.Poly, replay map[string]interface{}) bool {
	for i := range got {
		if int64(got[i]%common.Q) != want[i] || got[i] > 2*common.Q {
			return vlib.ReportDirect(t, "C04/sample/"+name+"/"+what, fmt.Sprintf("%s: coefficient %d = %d, specification %d", input, i, got[i], want[i]), replay)
		}
	}
	return true
}

// c04SamplerTails feeds the rejection samplers with inputs from the far tail of their
// rejection behaviour, found by scanning with the reference's byte counters (mldsa.Scanner):
//
//	ExpandA / RejNTTPoly:      (rho, nonce) with a 23-bit candidate exactly q or q-1, and the
//	                           inputs with the most rejected candidates;
//	ExpandS / RejBoundedPoly:  (rho', nonce) that read the most SHAKE-256 bytes, in particular all
//	                           that need one block more than usual (eta = 4: a third block,
//	                           probability 6.5e-6 per call);
//	SampleInBall:              seeds with the most rejected index bytes.
//
// ExpandMask has no rejection step. All scans are deterministic functions of (VERIF_SEED, shard).
func c04SamplerTails(t *testing.T, name, sub string) bool {
	p := c04P
	sc := mldsa.NewScanner()
	base := uint64(vlib.Seed)*977 + uint64(vlib.Shard)*31
	// --- ExpandA
	topA := &mldsa.TopK{K: 24}
	hitsQ := 0
	checkA := func(in []byte, cls string) bool {
		var rho [32]byte
		copy(rho[:], in[:32])
		nonce := int(in[32]) | int(in[33])<<8
		vlib.Eval(sub)
		vlib.NonTrivial(sub, cls, in)
		want := mldsa.RejNTTPoly(in)
		rp := map[string]interface{}{"rho": fmt.Sprintf("%x", rho), "nonce": nonce}
		desc := fmt.Sprintf("rho %x nonce %d (%s)", rho, nonce, cls)
		var single common.Poly
		PolyDeriveUniform(&single, &rho, uint16(nonce))
		if !c04CmpPoly(t, name, "PolyDeriveUniform", desc, &single, &want, rp) {
			return false
		}
		if DeriveX4Available {
			for lane := 0; lane < 4; lane++ {
				var ptr [4]*common.Poly
				var nonces [4]uint16
				for k := range ptr {
					ptr[k] = new(common.Poly)
					nonces[k] = uint16(nonce + 1 + k)
				}
				nonces[lane] = uint16(nonce)
				PolyDeriveUniformX4(ptr, &rho, nonces)
				if !c04CmpPoly(t, name, "PolyDeriveUniformX4", desc, ptr[lane], &want, rp) {
					return false
				}
			}
		}
		return true
	}
	for sweep := 0; sweep < 4 && hitsQ < 2; sweep++ {
		var rho [32]byte
		vlib.ExpandInto(rho[:], base+uint64(sweep))
		for nonce := 0; nonce < 1<<16; nonce++ {
			in := append(append([]byte{}, rho[:]...), byte(nonce), byte(nonce>>8))
			cls := ""
			cands := mldsa.RejNTTCandidates(in)
			for _, c := range cands {
				if c == common.Q {
					cls = "rejection-boundary/candidate=q"
				} else if c == common.Q-1 && cls == "" {
					cls = "rejection-boundary/candidate=q-1"
				}
			}
			topA.Offer(len(cands)-common.N, in)
			if cls == "" {
				continue
			}
			if cls == "rejection-boundary/candidate=q" {
				hitsQ++
			}
			if !checkA(in, cls) {
				return false
			}
		}
	}
	for _, it := range topA.Items {
		if !checkA(it.Data, fmt.Sprintf("tail/ExpandA/rejections>=%d", it.Score/2*2)) {
			return false
		}
	}
	// --- ExpandS
	usual := 272 // two SHAKE-256 blocks
	sweeps := 1
	if Eta == 4 {
		sweeps = 8
	}
	topS := &mldsa.TopK{K: 24}
	extra := &mldsa.TopK{K: 64}
	for sweep := 0; sweep < sweeps; sweep++ {
		var rhop [66]byte
		vlib.ExpandInto(rhop[:64], base+1000+uint64(sweep))
		for nonce := 0; nonce < 1<<16; nonce++ {
			rhop[64], rhop[65] = byte(nonce), byte(nonce>>8)
			b := sc.RejBoundedBytes(Eta, rhop[:])
			if b > usual {
				extra.Offer(b, rhop[:])
			} else {
				topS.Offer(b, rhop[:])
			}
		}
	}
	for _, it := range append(append([]mldsa.TopItem{}, extra.Items...), topS.Items...) {
		var seed [64]byte
		copy(seed[:], it.Data[:64])
		nonce := uint16(it.Data[64]) | uint16(it.Data[65])<<8
		cls := fmt.Sprintf("tail/ExpandS/blocks=%d", (it.Score+135)/136)
		vlib.Eval(sub)
		vlib.NonTrivial(sub, cls, it.Data)
		var cp common.Poly
		PolyDeriveUniformLeqEta(&cp, &seed, nonce)
		want := p.RejBoundedPoly(it.Data)
		if !c04CmpPoly(t, name, "PolyDeriveUniformLeqEta", fmt.Sprintf("rho' %x nonce %d (%d XOF bytes)", seed, nonce, it.Score), &cp, &want, map[string]interface{}{"rhop": fmt.Sprintf("%x", seed), "nonce": nonce}) {
			return false
		}
		for i := range cp {
			if cp[i] < common.Q-Eta || cp[i] > common.Q+Eta {
				return vlib.ReportDirect(t, "C04/sample/"+name+"/PolyDeriveUniformLeqEta", fmt.Sprintf("rho' %x nonce %d: coefficient %d = %d outside the documented range [q-eta, q+eta]", seed, nonce, i, cp[i]), map[string]interface{}{"rhop": fmt.Sprintf("%x", seed), "nonce": nonce})
			}
		}
	}
	// --- SampleInBall
	topB := &mldsa.TopK{K: 24}
	cseed := make([]byte, CTildeSize)
	vlib.ExpandInto(cseed, base+2000)
	for ctr := 0; ctr < 60000; ctr++ {
		cseed[0], cseed[1], cseed[2] = byte(ctr), byte(ctr>>8), byte(ctr>>16)
		topB.Offer(sc.InBallBytes(Tau, cseed), cseed)
	}
	for _, it := range topB.Items {
		cls := fmt.Sprintf("tail/SampleInBall/rejections>=%d", (it.Score-8-Tau)/4*4)
		vlib.Eval(sub)
		vlib.NonTrivial(sub, cls, it.Data)
		want := p.SampleInBall(it.Data)
		var cp common.Poly
		PolyDeriveUniformBall(&cp, it.Data)
		rp := map[string]interface{}{"ctilde": fmt.Sprintf("%x", it.Data)}
		if !c04CmpPoly(t, name, "PolyDeriveUniformBall", fmt.Sprintf("seed %x (%d XOF bytes)", it.Data, it.Score), &cp, &want, rp) {
			return false
		}
		if DeriveX4Available {
			var ps [4]common.Poly
			PolyDeriveUniformBallX4([4]*common.Poly{&ps[0], &ps[1], &ps[2], &ps[3]}, it.Data)
			for i := range ps {
				if !c04CmpPoly(t, name, "PolyDeriveUniformBallX4", fmt.Sprintf("seed %x", it.Data), &ps[i], &want, rp) {
					return false
				}
			}
		}
	}
	return true
}
