//go:build verif && amd64 && !purego

package dilithium

import "golang.org/x/sys/cpu"

func c12HasAVX2() bool { return cpu.X86.HasAVX2 }
