//go:build verif

// C12 white-box: exhaustive sweep of Dilithium's 32-bit reductions
// (q = 8380417) and a boundary-biased sample of the 64-bit Montgomery one.
package dilithium

import (
	"fmt"
	"math/big"
	"sync"
	"testing"

	"github.com/cloudflare/circl/zz_verif/vlib"
	"pgregory.net/rapid"
)

func TestVerifC12DilithiumField(t *testing.T) {
	defer vlib.Done()
	const q = 8380417
	const sub = "dilithium.field"
	if Q != q || D != 13 || (uint64(Qinv)*q+1)&0xffffffff != 0 {
		t.Fatalf("SELFTEST-FAIL: constants of the Dilithium reference are off")
	}
	vlib.Selftest("c12/dilithium-constants", "ok")
	var mu sync.Mutex
	failed := false
	bad := func(fn string, x uint64, detail string) {
		mu.Lock()
		defer mu.Unlock()
		if failed {
			return
		}
		if !vlib.ReportDirect(t, "C12/dilithium.field/"+fn+"/wrong-result", fmt.Sprintf("%s(%d): %s", fn, x, detail), map[string]interface{}{"fn": fn, "x": x}) {
			failed = true
		}
	}
	// ReduceLe2Q and modQ: every uint32, split over shards and goroutines
	total := uint64(1) << 32
	per := total / uint64(vlib.NShards)
	a := per * uint64(vlib.Shard)
	b := a + per
	if vlib.Shard == vlib.NShards-1 {
		b = total
	}
	const G = 8
	var wg sync.WaitGroup
	for g := 0; g < G; g++ {
		lo := a + (b-a)*uint64(g)/G
		hi := a + (b-a)*uint64(g+1)/G
		wg.Add(1)
		go func(lo, hi uint64) {
			defer wg.Done()
			r := uint32(lo % q) // x mod q, maintained incrementally
			for x := lo; x < hi; x++ {
				y := ReduceLe2Q(uint32(x))
				if y >= 2*q || (y != r && y != r+q) {
					bad("ReduceLe2Q", x, fmt.Sprintf("= %d, x mod q = %d", y, r))
					return
				}
				if m := modQ(uint32(x)); m != r {
					bad("modQ", x, fmt.Sprintf("= %d, x mod q = %d", m, r))
					return
				}
				r++
				if r == q {
					r = 0
				}
			}
		}(lo, hi)
	}
	wg.Wait()
	if failed {
		return
	}
	vlib.EvalN(sub, int64(2*(b-a)))
	vlib.ClassN(sub, "op=ReduceLe2Q", int64(b-a))
	vlib.ClassN(sub, "op=modQ", int64(b-a))
	vlib.NonTrivialH(sub, "", uint64(vlib.Shard))
	if vlib.Shard == 0 {
		vlib.Exhaustive("C12 dilithium ReduceLe2Q and modQ: all 2^32 inputs", int64(2*total), "all shards together")
		// le2qModQ: every 0 ≤ x < 2q ; power2round: every 0 ≤ a < q
		for x := uint32(0); x < 2*q; x++ {
			if y := le2qModQ(x); y != x%q {
				bad("le2qModQ", uint64(x), fmt.Sprintf("= %d", y))
				return
			}
		}
		for x := uint32(0); x < q; x++ {
			a0q, a1 := power2round(x)
			a0 := int64(a0q) - q
			// FIPS 204 Power2Round: a = a1·2^d + a0 with -2^(d-1) < a0 ≤ 2^(d-1)
			if int64(a1)<<D+a0 != int64(x) || a0 <= -(1<<(D-1)) || a0 > 1<<(D-1) {
				bad("power2round", uint64(x), fmt.Sprintf("= (a0+q=%d, a1=%d)", a0q, a1))
				return
			}
		}
		vlib.EvalN(sub, 3*q)
		vlib.ClassN(sub, "op=le2qModQ", 2*q)
		vlib.ClassN(sub, "op=power2round", q)
		vlib.Exhaustive("C12 dilithium le2qModQ: all 0 ≤ x < 2q; power2round: all 0 ≤ a < q", 3*q, "shard 0")
	}
}

// montReduceLe2Q has a 64-bit domain (0 ≤ x ≤ q·2^32): boundary-biased sample.
func TestVerifC12DilithiumMont(t *testing.T) {
	defer vlib.Done()
	const q = 8380417
	const sub = "dilithium.field"
	bq := big.NewInt(q)
	max := new(big.Int).Lsh(bq, 32)
	vlib.Check(t, vlib.N(40000, 400000), func(t *rapid.T) {
		var x uint64
		cls := "uniform"
		switch rapid.IntRange(0, 3).Draw(t, "k") {
		case 0:
			x = vlib.Limbs(t, 1, 1, "x").Uint64()
			cls = "limb-edge"
		case 1:
			// k·q·2^j ± small and the top of the domain
			k := uint64(rapid.IntRange(0, 1<<16).Draw(t, "mult"))
			j := uint(rapid.IntRange(0, 32).Draw(t, "shift"))
			x = (k * q) << j
			x += uint64(rapid.IntRange(-3, 3).Draw(t, "d"))
			cls = "multiple"
		case 2:
			x = max.Uint64() - uint64(rapid.IntRange(0, 1<<20).Draw(t, "below"))
			cls = "top"
		default:
			x = rapid.Uint64().Draw(t, "x")
		}
		x %= max.Uint64() + 1
		vlib.Eval(sub)
		vlib.Class(sub, "op=montReduceLe2Q")
		y := montReduceLe2Q(x)
		// y·2^32 ≡ x (mod q) and y ≤ 2q
		l := new(big.Int).Lsh(big.NewInt(int64(y)), 32)
		l.Sub(l, new(big.Int).SetUint64(x)).Mod(l, bq)
		if y > 2*q || l.Sign() != 0 {
			vlib.Report(t, "C12/dilithium.field/montReduceLe2Q/wrong-result", fmt.Sprintf("montReduceLe2Q(%d) = %d", x, y))
			return
		}
		if cls != "uniform" {
			vlib.NonTrivial(sub, "operand="+cls, []byte("mont"), new(big.Int).SetUint64(x).Bytes())
		}
	})
}

// ---------------------------------------------------------------------------
// Poly operations over the WHOLE documented input range of each function, on
// the dispatched back-end (AVX2 where the CPU has it) and on the generic code
// side by side, against integer arithmetic mod q.

var c12PolyEdges = []uint32{0, 1, 2, Q - 1, Q, Q + 1, 2*Q - 1, 2 * Q, 2*Q + 1, 1 << 13, 1<<13 - 1, 1 << 19, 1<<19 - 1, 1 << 23, 1<<23 - 1, 1 << 28, 1<<28 + 1,
	1<<31 - 1, 1 << 31, 1<<31 + 1, 3 << 30, 1<<32 - Q, 1<<32 - 2, 1<<32 - 1, 18*Q - 1, 18 * Q}

// c12Coef draws one coefficient ≤ max (inclusive): an edge value that fits, max−d, or uniform.
func c12Coef(t *rapid.T, max uint64, label string) uint32 {
	switch rapid.IntRange(0, 3).Draw(t, label+".k") {
	case 0, 1:
		e := c12PolyEdges[rapid.IntRange(0, len(c12PolyEdges)-1).Draw(t, label+".e")]
		if uint64(e) <= max {
			return e
		}
		return uint32(max)
	case 2:
		d := uint64(rapid.IntRange(0, 3).Draw(t, label+".d"))
		if d > max {
			d = max
		}
		return uint32(max - d)
	}
	return uint32(rapid.Uint64Range(0, max).Draw(t, label+".u"))
}

func c12PolyBackend() string {
	if c12HasAVX2() {
		return "avx2"
	}
	return "generic-dispatch"
}

func TestVerifC12DilithiumPoly(t *testing.T) {
	defer vlib.Done()
	const q = uint64(Q)
	const sub = "dilithium.poly"
	const u32 = uint64(1)<<32 - 1
	backend := c12PolyBackend()
	mulBound := q << 32 // MulHat: each product strictly below 2^32·q
	ops := []string{"MulHat", "MulHat", "MulHat", "Add", "Sub", "ReduceLe2Q", "Normalize", "NormalizeAssumingLe2Q", "MulBy2toD", "Exceeds", "Power2Round", "NTT-roundtrip", "PolyMul"}
	vlib.Check(t, vlib.N(2500, 25000), func(t *rapid.T) {
		op := rapid.SampledFrom(ops).Draw(t, "op")
		vlib.Eval(sub)
		vlib.Class(sub, "op="+op)
		var a, b Poly
		// generate exactly the documented domain of the operation
		amax, bmax := u32, u32
		switch op {
		case "Sub":
			bmax = 2*q - 1 // "assumes coefficients of b are less than 2q"
		case "NormalizeAssumingLe2Q":
			amax = 2*q - 1
		case "MulBy2toD":
			amax = 1<<(32-D) - 1
		case "Exceeds", "Power2Round":
			amax = q - 1 // normalized
		case "NTT-roundtrip", "PolyMul":
			amax, bmax = 2*q-1, 2*q-1 // "bounded by 2*Q"
		}
		nearBound := 0
		for i := 0; i < N; i++ {
			a[i] = c12Coef(t, amax, "a")
			switch op {
			case "MulHat":
				// b over everything that keeps a·b below 2^32·q; often right below the bound
				lim := u32
				if a[i] != 0 {
					if m := (mulBound - 1) / uint64(a[i]); m < lim {
						lim = m
					}
				}
				b[i] = c12Coef(t, lim, "b")
				if p := uint64(a[i]) * uint64(b[i]); p >= mulBound-(uint64(a[i])<<2)-4 {
					nearBound++
				}
			case "Add":
				// the sum must fit a coefficient (no wrap is documented)
				b[i] = c12Coef(t, u32-uint64(a[i]), "b")
			case "Sub":
				b[i] = c12Coef(t, bmax, "b")
				if uint64(a[i])+2*q-uint64(b[i]) > u32 {
					a[i] = uint32(u32 - 2*q)
				}
			default:
				b[i] = c12Coef(t, bmax, "b")
			}
		}
		fail := func(be, class, detail string) {
			vlib.Report(t, "C12/dilithium.poly/"+op+"/"+be+"/"+class, detail)
		}
		mod := func(x uint64) uint64 { return x % q }
		// run evaluates one back-end
		for _, be := range []string{backend, "generic"} {
			var p, p2 Poly
			switch op {
			case "MulHat":
				if be == "generic" {
					p.mulHatGeneric(&a, &b)
				} else {
					p.MulHat(&a, &b)
				}
				for i := range p {
					// y ≤ 2q and y·2^32 ≡ a·b (mod q)
					prod := new(big.Int).Mul(big.NewInt(int64(a[i])), big.NewInt(int64(b[i])))
					l := new(big.Int).Lsh(big.NewInt(int64(p[i])), 32)
					if uint64(p[i]) > 2*q || l.Sub(l, prod).Mod(l, big.NewInt(int64(q))).Sign() != 0 {
						fail(be, "wrong-result", fmt.Sprintf("coefficient %d: a=%d b=%d (product %s < 2^32·q): MulHat gave %d", i, a[i], b[i], prod, p[i]))
						return
					}
				}
			case "Add":
				if be == "generic" {
					p.addGeneric(&a, &b)
				} else {
					p.Add(&a, &b)
				}
				for i := range p {
					if uint64(p[i]) != uint64(a[i])+uint64(b[i]) {
						fail(be, "wrong-result", fmt.Sprintf("coefficient %d: %d + %d gave %d", i, a[i], b[i], p[i]))
						return
					}
				}
			case "Sub":
				if be == "generic" {
					p.subGeneric(&a, &b)
				} else {
					p.Sub(&a, &b)
				}
				for i := range p {
					if mod(uint64(p[i])) != mod(uint64(a[i])+2*q-uint64(b[i])) {
						fail(be, "wrong-result", fmt.Sprintf("coefficient %d: %d − %d gave %d", i, a[i], b[i], p[i]))
						return
					}
				}
			case "ReduceLe2Q", "Normalize", "NormalizeAssumingLe2Q":
				p = a
				switch {
				case op == "ReduceLe2Q" && be == "generic":
					p.reduceLe2QGeneric()
				case op == "ReduceLe2Q":
					p.ReduceLe2Q()
				case op == "Normalize" && be == "generic":
					p.normalizeGeneric()
				case op == "Normalize":
					p.Normalize()
				case be == "generic":
					p.normalizeAssumingLe2QGeneric()
				default:
					p.NormalizeAssumingLe2Q()
				}
				for i := range p {
					ok := mod(uint64(p[i])) == mod(uint64(a[i])) && uint64(p[i]) < 2*q
					if op != "ReduceLe2Q" {
						ok = uint64(p[i]) == mod(uint64(a[i]))
					}
					if !ok {
						fail(be, "wrong-result", fmt.Sprintf("coefficient %d: %s(%d) gave %d", i, op, a[i], p[i]))
						return
					}
				}
			case "MulBy2toD":
				if be == "generic" {
					p.mulBy2toDGeneric(&a)
				} else {
					p.MulBy2toD(&a)
				}
				for i := range p {
					if uint64(p[i]) != uint64(a[i])<<D {
						fail(be, "wrong-result", fmt.Sprintf("coefficient %d: %d·2^D gave %d", i, a[i], p[i]))
						return
					}
				}
			case "Exceeds":
				// true iff some centred representative has absolute value ≥ bound
				bound := c12Coef(t, (q-1)/2+3, "bound")
				var max uint64
				for i := range a {
					v := uint64(a[i])
					if v > (q-1)/2 {
						v = q - v
					}
					if v > max {
						max = v
					}
				}
				var got bool
				if be == "generic" {
					got = a.exceedsGeneric(bound)
				} else {
					got = a.Exceeds(bound)
				}
				if got != (max >= uint64(bound)) {
					fail(be, "wrong-predicate", fmt.Sprintf("sup-norm %d, bound %d: Exceeds = %v", max, bound, got))
					return
				}
			case "Power2Round":
				if be != "generic" {
					continue
				}
				a.Power2Round(&p, &p2)
				for i := range a {
					a0 := int64(p[i]) - int64(q)
					if int64(p2[i])<<D+a0 != int64(a[i]) || a0 <= -(1<<(D-1)) || a0 > 1<<(D-1) {
						fail(be, "wrong-result", fmt.Sprintf("Power2Round(%d) = (%d, %d)", a[i], p[i], p2[i]))
						return
					}
				}
			case "NTT-roundtrip":
				// NTT: input < 2q, output < 18q; InvNTT: input < 2q, output < 2q and ≡ R·x
				p = a
				if be == "generic" {
					p.nttGeneric()
				} else {
					p.NTT()
				}
				for i := range p {
					if uint64(p[i]) >= 18*q {
						fail(be, "out-of-bound", fmt.Sprintf("NTT output coefficient %d = %d ≥ 18q", i, p[i]))
						return
					}
				}
				p.reduceLe2QGeneric()
				if be == "generic" {
					p.invNttGeneric()
				} else {
					p.InvNTT()
				}
				for i := range p {
					if uint64(p[i]) >= 2*q || mod(uint64(p[i])) != mod(mod(uint64(a[i]))*mod(1<<32)) {
						fail(be, "wrong-result", fmt.Sprintf("InvNTT(NTT(x)) coefficient %d: x=%d gave %d (want ≡ x·2^32, < 2q)", i, a[i], p[i]))
						return
					}
				}
			case "PolyMul":
				// InvNTT(MulHat(NTT a, NTT b)) ≡ a·b in Z_q[X]/(X^256+1) (schoolbook reference)
				x, y := a, b
				if be == "generic" {
					x.nttGeneric()
					y.nttGeneric()
					p.mulHatGeneric(&x, &y)
					p.invNttGeneric()
				} else {
					x.NTT()
					y.NTT()
					p.MulHat(&x, &y)
					p.InvNTT()
				}
				var want [N]uint64
				for i := 0; i < N; i++ {
					ai := mod(uint64(a[i]))
					for j := 0; j < N; j++ {
						v := ai * mod(uint64(b[j])) % q
						if i+j < N {
							want[i+j] = (want[i+j] + v) % q
						} else {
							want[i+j-N] = (want[i+j-N] + q - v) % q
						}
					}
				}
				for i := range p {
					if mod(uint64(p[i])) != want[i] || uint64(p[i]) >= 2*q {
						fail(be, "wrong-product", fmt.Sprintf("coefficient %d of the negacyclic product: got %d want %d", i, p[i], want[i]))
						return
					}
				}
			}
		}
		vlib.Class(sub, "backend="+backend+"+generic")
		if nearBound > 0 {
			vlib.Class(sub, "mulhat-product-just-below-2^32q")
		}
		h := vlib.Hash64([]byte(op), func() []byte {
			o := make([]byte, 0, 8*N)
			for i := range a {
				o = append(o, byte(a[i]), byte(a[i]>>8), byte(a[i]>>16), byte(a[i]>>24), byte(b[i]), byte(b[i]>>8), byte(b[i]>>16), byte(b[i]>>24))
			}
			return o
		}())
		vlib.NonTrivialH(sub, "", h)
	})
}

// c12Pattern draws a structured polynomial with coefficients in [0, max]: constant, blocks of
// two values (halves, quarters, … alternating), single spikes, ramps, or random.
func c12Pattern(t *rapid.T, max uint32, label string) (p Poly, kind string) {
	vals := []uint32{0, 1, Q - 1, Q, Q + 1, max - 1, max, max, max}
	pick := func(l string) uint32 {
		v := vals[rapid.IntRange(0, len(vals)-1).Draw(t, label+l)]
		if v > max {
			v = max
		}
		return v
	}
	lo, hi := pick(".lo"), pick(".hi")
	kind = rapid.SampledFrom([]string{"constant", "blocks", "blocks", "blocks", "spike", "ramp", "random", "random-two-valued"}).Draw(t, label+".kind")
	switch kind {
	case "constant":
		for i := range p {
			p[i] = hi
		}
	case "blocks":
		sh := uint(rapid.IntRange(0, 7).Draw(t, label+".blk")) // block length 2^sh: alternating … halves
		for i := range p {
			if (i>>sh)&1 == 1 {
				p[i] = hi
			} else {
				p[i] = lo
			}
		}
	case "spike":
		for i := range p {
			p[i] = lo
		}
		for n := rapid.IntRange(1, 3).Draw(t, label+".ns"); n > 0; n-- {
			p[rapid.IntRange(0, N-1).Draw(t, label+".pos")] = hi
		}
	case "ramp":
		step := uint64(max) / N
		down := rapid.Bool().Draw(t, label+".down")
		for i := range p {
			k := i
			if down {
				k = N - 1 - i
			}
			p[i] = uint32(uint64(k)*step + uint64(max)%N)
		}
	case "random-two-valued":
		bits := make([]byte, N/8)
		vlib.FillRandom(t, bits, label+".bits")
		for i := range p {
			if bits[i/8]>>(i%8)&1 == 1 {
				p[i] = hi
			} else {
				p[i] = lo
			}
		}
	default:
		raw := make([]byte, 4*N)
		vlib.FillRandom(t, raw, label+".raw")
		for i := range p {
			v := uint64(raw[4*i]) | uint64(raw[4*i+1])<<8 | uint64(raw[4*i+2])<<16 | uint64(raw[4*i+3])<<24
			p[i] = uint32(v % (uint64(max) + 1))
		}
	}
	return
}

// NTT and InvNTT on structured inputs over their whole documented domain
// (coefficients < 2q, not only images of the other transform), dispatched and
// generic code side by side, against the linear model Σ x[i]·T(e_i) mod q built
// from the transforms of the unit vectors, and against each other through
// NTT(InvNTT(x)) ≡ 2^32·x.
func TestVerifC12DilithiumNTTStructured(t *testing.T) {
	defer vlib.Done()
	const q = uint64(Q)
	const sub = "dilithium.poly"
	backend := c12PolyBackend()
	type tf struct {
		name, be string
		f        func(p *Poly)
	}
	tfs := []tf{
		{"NTT", backend, func(p *Poly) { p.NTT() }}, {"NTT", "generic", func(p *Poly) { p.nttGeneric() }},
		{"InvNTT", backend, func(p *Poly) { p.InvNTT() }}, {"InvNTT", "generic", func(p *Poly) { p.invNttGeneric() }},
	}
	// basis images T(e_i) mod q per transform and back-end (unit vectors are inside every documented domain)
	basis := make([][N][N]uint64, len(tfs))
	for k, x := range tfs {
		for i := 0; i < N; i++ {
			var e Poly
			e[i] = 1
			x.f(&e)
			for j := range e {
				basis[k][i][j] = uint64(e[j]) % q
			}
		}
	}
	vlib.Check(t, vlib.N(400, 4000), func(t *rapid.T) {
		x, kind := c12Pattern(t, 2*Q-1, "x")
		vlib.Eval(sub)
		vlib.Class(sub, "op=NTT/InvNTT-structured")
		vlib.Class(sub, "pattern="+kind)
		var outs [4]Poly
		for k, tr := range tfs {
			fail := func(class, detail string) {
				vlib.Report(t, "C12/dilithium.poly/"+tr.name+"-structured/"+tr.be+"/"+class, fmt.Sprintf("pattern %s, x[0..3]=%v x[128..131]=%v x[252..255]=%v: %s", kind, x[:4], x[128:132], x[252:], detail))
			}
			y := x
			tr.f(&y)
			outs[k] = y
			bound := uint64(18 * q)
			if tr.name == "InvNTT" {
				bound = 2 * q
			}
			var want [N]uint64
			for i := 0; i < N; i++ {
				xi := uint64(x[i]) % q
				if xi == 0 {
					continue
				}
				for j := 0; j < N; j++ {
					want[j] = (want[j] + xi*basis[k][i][j]) % q
				}
			}
			for j := range y {
				if uint64(y[j])%q != want[j] {
					fail("not-linear", fmt.Sprintf("coefficient %d = %d, linear model (Σ x[i]·T(e_i)) gives %d", j, y[j], want[j]))
					return
				}
				if uint64(y[j]) >= bound {
					fail("out-of-bound", fmt.Sprintf("coefficient %d = %d ≥ documented bound %d", j, y[j], bound))
					return
				}
			}
		}
		// the two back-ends agree modulo q, and NTT(InvNTT(x)) ≡ 2^32·x
		for k := 0; k < 4; k += 2 {
			for j := 0; j < N; j++ {
				if uint64(outs[k][j])%q != uint64(outs[k+1][j])%q {
					vlib.Report(t, "C12/dilithium.poly/"+tfs[k].name+"-structured/backends-differ", fmt.Sprintf("pattern %s coefficient %d: %s %d, generic %d", kind, j, backend, outs[k][j], outs[k+1][j]))
					return
				}
			}
		}
		for k := 2; k < 4; k++ {
			z := outs[k]
			z.nttGeneric()
			for j := range z {
				if uint64(z[j])%q != (uint64(x[j])%q)*((1<<32)%q)%q {
					vlib.Report(t, "C12/dilithium.poly/InvNTT-structured/"+tfs[k].be+"/not-inverse", fmt.Sprintf("pattern %s: NTT(InvNTT(x))[%d] = %d, want ≡ 2^32·%d", kind, j, z[j], x[j]))
					return
				}
			}
		}
		raw := make([]byte, 0, 4*N)
		for i := range x {
			raw = append(raw, byte(x[i]), byte(x[i]>>8), byte(x[i]>>16), byte(x[i]>>24))
		}
		vlib.NonTrivialH(sub, "", vlib.Hash64([]byte("ntt-structured"), raw))
	})
}
