//go:build verif

// C12 white-box: exhaustive sweep of Dilithium's 32-bit reductions
// (q = 8380417) and a boundary-biased sample of the 64-bit Montgomery one.
package dilithium

import (
	"fmt"
	"math/big"
	"sync"
	"testing"

	"github.com/cloudflare/circl/zz_verif/vlib"
	"pgregory.net/rapid"
)

func TestVerifC12DilithiumField(t *testing.T) {
	defer vlib.Done()
	const q = 8380417
	const sub = "dilithium.field"
	if Q != q || D != 13 || (uint64(Qinv)*q+1)&0xffffffff != 0 {
		t.Fatalf("SELFTEST-FAIL: constants of the Dilithium reference are off")
	}
	vlib.Selftest("c12/dilithium-constants", "ok")
	var mu sync.Mutex
	failed := false
	bad := func(fn string, x uint64, detail string) {
		mu.Lock()
		defer mu.Unlock()
		if failed {
			return
		}
		if !vlib.ReportDirect(t, "C12/dilithium.field/"+fn+"/wrong-result", fmt.Sprintf("%s(%d): %s", fn, x, detail), map[string]interface{}{"fn": fn, "x": x}) {
			failed = true
		}
	}
	// ReduceLe2Q and modQ: every uint32, split over shards and goroutines
	total := uint64(1) << 32
	per := total / uint64(vlib.NShards)
	a := per * uint64(vlib.Shard)
	b := a + per
	if vlib.Shard == vlib.NShards-1 {
		b = total
	}
	const G = 8
	var wg sync.WaitGroup
	for g := 0; g < G; g++ {
		lo := a + (b-a)*uint64(g)/G
		hi := a + (b-a)*uint64(g+1)/G
		wg.Add(1)
		go func(lo, hi uint64) {
			defer wg.Done()
			r := uint32(lo % q) // x mod q, maintained incrementally
			for x := lo; x < hi; x++ {
				y := ReduceLe2Q(uint32(x))
				if y >= 2*q || (y != r && y != r+q) {
					bad("ReduceLe2Q", x, fmt.Sprintf("= %d, x mod q = %d", y, r))
					return
				}
				if m := modQ(uint32(x)); m != r {
					bad("modQ", x, fmt.Sprintf("= %d, x mod q = %d", m, r))
					return
				}
				r++
				if r == q {
					r = 0
				}
			}
		}(lo, hi)
	}
	wg.Wait()
	if failed {
		return
	}
	vlib.EvalN(sub, int64(2*(b-a)))
	vlib.ClassN(sub, "op=ReduceLe2Q", int64(b-a))
	vlib.ClassN(sub, "op=modQ", int64(b-a))
	vlib.NonTrivialH(sub, "", uint64(vlib.Shard))
	if vlib.Shard == 0 {
		vlib.Exhaustive("C12 dilithium ReduceLe2Q and modQ: all 2^32 inputs", int64(2*total), "all shards together")
		// le2qModQ: every 0 ≤ x < 2q ; power2round: every 0 ≤ a < q
		for x := uint32(0); x < 2*q; x++ {
			if y := le2qModQ(x); y != x%q {
				bad("le2qModQ", uint64(x), fmt.Sprintf("= %d", y))
				return
			}
		}
		for x := uint32(0); x < q; x++ {
			a0q, a1 := power2round(x)
			a0 := int64(a0q) - q
			// FIPS 204 Power2Round: a = a1·2^d + a0 with -2^(d-1) < a0 ≤ 2^(d-1)
			if int64(a1)<<D+a0 != int64(x) || a0 <= -(1<<(D-1)) || a0 > 1<<(D-1) {
				bad("power2round", uint64(x), fmt.Sprintf("= (a0+q=%d, a1=%d)", a0q, a1))
				return
			}
		}
		vlib.EvalN(sub, 3*q)
		vlib.ClassN(sub, "op=le2qModQ", 2*q)
		vlib.ClassN(sub, "op=power2round", q)
		vlib.Exhaustive("C12 dilithium le2qModQ: all 0 ≤ x < 2q; power2round: all 0 ≤ a < q", 3*q, "shard 0")
	}
}

// montReduceLe2Q has a 64-bit domain (0 ≤ x ≤ q·2^32): boundary-biased sample.
func TestVerifC12DilithiumMont(t *testing.T) {
	defer vlib.Done()
	const q = 8380417
	const sub = "dilithium.field"
	bq := big.NewInt(q)
	max := new(big.Int).Lsh(bq, 32)
	vlib.Check(t, vlib.N(40000, 400000), func(t *rapid.T) {
		var x uint64
		cls := "uniform"
		switch rapid.IntRange(0, 3).Draw(t, "k") {
		case 0:
			x = vlib.Limbs(t, 1, 1, "x").Uint64()
			cls = "limb-edge"
		case 1:
			// k·q·2^j ± small and the top of the domain
			k := uint64(rapid.IntRange(0, 1<<16).Draw(t, "mult"))
			j := uint(rapid.IntRange(0, 32).Draw(t, "shift"))
			x = (k * q) << j
			x += uint64(rapid.IntRange(-3, 3).Draw(t, "d"))
			cls = "multiple"
		case 2:
			x = max.Uint64() - uint64(rapid.IntRange(0, 1<<20).Draw(t, "below"))
			cls = "top"
		default:
			x = rapid.Uint64().Draw(t, "x")
		}
		x %= max.Uint64() + 1
		vlib.Eval(sub)
		vlib.Class(sub, "op=montReduceLe2Q")
		y := montReduceLe2Q(x)
		// y·2^32 ≡ x (mod q) and y ≤ 2q
		l := new(big.Int).Lsh(big.NewInt(int64(y)), 32)
		l.Sub(l, new(big.Int).SetUint64(x)).Mod(l, bq)
		if y > 2*q || l.Sign() != 0 {
			vlib.Report(t, "C12/dilithium.field/montReduceLe2Q/wrong-result", fmt.Sprintf("montReduceLe2Q(%d) = %d", x, y))
			return
		}
		if cls != "uniform" {
			vlib.NonTrivial(sub, "operand="+cls, []byte("mont"), new(big.Int).SetUint64(x).Bytes())
		}
	})
}
