//go:build verif && (!amd64 || purego)

package dilithium

func c12HasAVX2() bool { return false }
