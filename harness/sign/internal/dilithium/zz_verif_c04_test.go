//go:build verif

// C04 white-box part for sign/internal/dilithium: exhaustive sweeps of the
// scalar rounding/reduction functions against their specification-level
// definitions, and the polynomial routines (dispatching *and* generic
// variants) against the reference ring arithmetic of zz_verif/ref/mldsa.
package dilithium

import (
	"bytes"
	"fmt"
	"testing"

	"github.com/cloudflare/circl/zz_verif/ref/mldsa"
	"github.com/cloudflare/circl/zz_verif/vlib"
	"pgregory.net/rapid"
)

const c04R = (1 << 32) % Q // Montgomery factor R mod q

func c04Selftest(t *testing.T) {
	t.Helper()
	note, err := mldsa.SelfTest(vlib.Harness, false)
	if err != nil {
		vlib.Selftest("ref/mldsa", "FAIL: "+err.Error())
		vlib.Done()
		t.Fatalf("SELFTEST-FAIL ref/mldsa: %v", err)
	}
	vlib.Selftest("ref/mldsa", note)
	if mldsa.Q != Q || mldsa.N != N || mldsa.D != D {
		t.Fatalf("SELFTEST-FAIL constants differ")
	}
}

// TestC04Power2Round: all of [0,q) against FIPS 204 Algorithm 35.
func TestC04Power2Round(t *testing.T) {
	defer vlib.Done()
	c04Selftest(t)
	sub := "exhaustive/power2round"
	n := int64(0)
	for a := uint32(vlib.Shard); a < Q; a += uint32(vlib.NShards) {
		a0q, a1 := power2round(a)
		r1, r0 := mldsa.Power2Round(int64(a))
		n++
		if int64(a0q) != r0+Q || int64(a1) != r1 {
			vlib.ReportDirect(t, "C04/rounding/power2round", fmt.Sprintf("power2round(%d) = (%d+q, %d), specification (%d, %d)", a, int64(a0q)-Q, a1, r0, r1), map[string]interface{}{"a": a})
			return
		}
	}
	vlib.EvalN(sub, n)
	if vlib.Shard == 0 {
		vlib.Exhaustive("power2round over [0,q)", Q, "all shards together; compared with FIPS 204 Power2Round")
	}
}

// TestC04Reductions: le2qModQ over [0,2q); ReduceLe2Q and modQ over all 2^32
// inputs (thorough, sharded) or a stride plus boundaries (quick);
// montReduceLe2Q boundary-biased.
func TestC04Reductions(t *testing.T) {
	defer vlib.Done()
	n := int64(0)
	for x := uint32(vlib.Shard); x < 2*Q; x += uint32(vlib.NShards) {
		n++
		if y := le2qModQ(x); y != x%Q {
			vlib.ReportDirect(t, "C04/reduction/le2qModQ", fmt.Sprintf("le2qModQ(%d) = %d, want %d", x, y, x%Q), map[string]interface{}{"x": x})
			return
		}
	}
	vlib.EvalN("exhaustive/le2qModQ", n)
	if vlib.Shard == 0 {
		vlib.Exhaustive("le2qModQ over [0,2q)", 2*Q, "all shards together")
	}
	check := func(x uint32) bool {
		y := ReduceLe2Q(x)
		if y >= 2*Q || y%Q != x%Q {
			vlib.ReportDirect(t, "C04/reduction/ReduceLe2Q", fmt.Sprintf("ReduceLe2Q(%d) = %d (must be < 2q and ≡ x mod q)", x, y), map[string]interface{}{"x": x})
			return false
		}
		if z := modQ(x); z != x%Q {
			vlib.ReportDirect(t, "C04/reduction/modQ", fmt.Sprintf("modQ(%d) = %d, want %d", x, z, x%Q), map[string]interface{}{"x": x})
			return false
		}
		return true
	}
	n = 0
	if vlib.Thorough() {
		lo := uint64(vlib.Shard) << 32 / uint64(vlib.NShards)
		hi := uint64(vlib.Shard+1) << 32 / uint64(vlib.NShards)
		for x := lo; x < hi; x++ {
			n++
			if !check(uint32(x)) {
				return
			}
		}
		if vlib.Shard == 0 {
			vlib.Exhaustive("ReduceLe2Q and modQ over all 2^32 inputs", 1<<32, "all shards together")
		}
	} else {
		for x := uint64(vlib.Seed % 997); x < 1<<32; x += 997 {
			n++
			if !check(uint32(x)) {
				return
			}
		}
		for k := uint64(0); k <= 512; k++ {
			for d := int64(-3); d <= 3; d++ {
				for _, base := range []uint64{k * Q, k << 23} {
					v := int64(base) + d
					if v >= 0 && v < 1<<32 {
						n++
						if !check(uint32(v)) {
							return
						}
					}
				}
			}
		}
	}
	vlib.EvalN("sweep/ReduceLe2Q+modQ", n)

	// montReduceLe2Q: documented domain x ≤ q·2^32, result ≤ 2q, y·2^32 ≡ x (mod q)
	vlib.Check(t, vlib.N(20000, 400000), func(t *rapid.T) {
		var x uint64
		const top = uint64(Q) << 32
		switch rapid.IntRange(0, 5).Draw(t, "kind") {
		case 0:
			x = rapid.Uint64Range(0, 1<<16).Draw(t, "small")
		case 1:
			x = top - rapid.Uint64Range(0, 1<<16).Draw(t, "fromtop")
		case 2:
			x = rapid.Uint64Range(0, Q-1).Draw(t, "k")<<32 + rapid.Uint64Range(0, 4).Draw(t, "d") - 2
			if x > top {
				x = top
			}
		case 3:
			x = rapid.Uint64Range(0, 2*Q-1).Draw(t, "a") * rapid.Uint64Range(0, 2*Q-1).Draw(t, "b")
		default:
			x = rapid.Uint64Range(0, top).Draw(t, "x")
		}
		vlib.Eval("montReduceLe2Q")
		y := uint64(montReduceLe2Q(x))
		if y > 2*Q || (y<<32)%Q != x%Q {
			vlib.Report(t, "C04/reduction/montReduceLe2Q", fmt.Sprintf("montReduceLe2Q(%d) = %d", x, y))
		}
	})
}

var c04Edges = []uint32{0, 1, 2, (Q - 1) / 2, (Q + 1) / 2, Q - 2, Q - 1, Q, Q + 1, 2*Q - 2, 2*Q - 1}

func c04DrawPoly(t *rapid.T, max uint32, label string) (p Poly) {
	var rnd [4 * N]byte
	vlib.FillRandom(t, rnd[:], label)
	mode := rapid.IntRange(0, 3).Draw(t, label+".mode")
	edge := rapid.SampledFrom(c04Edges).Draw(t, label+".edge")
	for i := range p {
		v := uint32(rnd[4*i]) | uint32(rnd[4*i+1])<<8 | uint32(rnd[4*i+2])<<16 | uint32(rnd[4*i+3])<<24
		switch {
		case mode == 0:
			p[i] = v % max
		case mode == 1:
			p[i] = c04Edges[v%uint32(len(c04Edges))]
		case mode == 2:
			if v&3 == 0 {
				p[i] = c04Edges[(v>>2)%uint32(len(c04Edges))]
			} else {
				p[i] = (v >> 2) % max
			}
		default:
			p[i] = edge
		}
		if p[i] >= max {
			p[i] = max - 1
		}
	}
	return
}

func c04Ref(p *Poly) (r mldsa.Poly) {
	for i := range p {
		r[i] = int64(p[i] % Q)
	}
	return
}

func c04Cmp(t *rapid.T, key, what string, got *Poly, want *mldsa.Poly, scale int64, bound uint32) bool {
	for i := range got {
		if bound != 0 && got[i] > bound {
			vlib.Report(t, key, fmt.Sprintf("%s: coefficient %d = %d exceeds the documented bound %d", what, i, got[i], bound))
			return false
		}
		if int64(got[i]%Q) != want[i]*scale%Q {
			vlib.Report(t, key, fmt.Sprintf("%s: coefficient %d = %d (mod q: %d), reference %d", what, i, got[i], got[i]%Q, want[i]*scale%Q))
			return false
		}
	}
	return true
}

// TestC04PolyArith: NTT, InvNTT, MulHat, Add, Sub, reductions, Exceeds,
// MulBy2toD, PackLe16 – dispatching and generic variants – against the
// reference ring arithmetic on boundary-biased polynomials.
func TestC04PolyArith(t *testing.T) {
	defer vlib.Done()
	c04Selftest(t)
	sub := "polyarith"
	rinv := int64(1)
	for rinv*c04R%Q != 1 { // R^-1 mod q by search (q is small)
		rinv++
	}
	vlib.Check(t, vlib.N(1500, 25000), func(t *rapid.T) {
		vlib.Eval(sub)
		a := c04DrawPoly(t, 2*Q, "a")
		b := c04DrawPoly(t, 2*Q, "b")
		ra, rb := c04Ref(&a), c04Ref(&b)
		// NTT
		want := mldsa.NTT(&ra)
		for vi, f := range []func(*Poly){(*Poly).NTT, (*Poly).nttGeneric} {
			p := a
			f(&p)
			if !c04Cmp(t, "C04/poly/NTT", fmt.Sprintf("NTT variant %d", vi), &p, &want, 1, 18*Q) {
				return
			}
		}
		// InvNTT (multiplies by R)
		want = mldsa.InvNTT(&ra)
		for vi, f := range []func(*Poly){(*Poly).InvNTT, (*Poly).invNttGeneric} {
			p := a
			f(&p)
			if !c04Cmp(t, "C04/poly/InvNTT", fmt.Sprintf("InvNTT variant %d", vi), &p, &want, c04R, 2*Q) {
				return
			}
		}
		// MulHat: a*b*R^-1
		var prod mldsa.Poly
		for i := range prod {
			prod[i] = ra[i] * rb[i] % Q
		}
		for vi, f := range []func(*Poly, *Poly, *Poly){(*Poly).MulHat, (*Poly).mulHatGeneric} {
			var p Poly
			f(&p, &a, &b)
			if !c04Cmp(t, "C04/poly/MulHat", fmt.Sprintf("MulHat variant %d", vi), &p, &prod, rinv, 2*Q) {
				return
			}
		}
		// full negacyclic product through circl's pipeline vs schoolbook:
		// InvNTT(MulHat(NTT a, NTT b)) = a*b*R^-1*R = a*b
		if rapid.IntRange(0, 7).Draw(t, "school") == 0 {
			x, y := a, b
			x.NTT()
			y.NTT()
			x.ReduceLe2Q()
			y.ReduceLe2Q()
			var z Poly
			z.MulHat(&x, &y)
			z.InvNTT()
			sb := mldsa.MulSchoolbook(&ra, &rb)
			if !c04Cmp(t, "C04/poly/product", "InvNTT(MulHat(NTT a, NTT b)) vs schoolbook", &z, &sb, 1, 2*Q) {
				return
			}
			vlib.Class(sub, "schoolbook-product")
		}
		// Add / Sub
		var sum, dif mldsa.Poly
		for i := range sum {
			sum[i] = (ra[i] + rb[i]) % Q
			dif[i] = (ra[i] - rb[i] + Q) % Q
		}
		for vi, f := range []func(*Poly, *Poly, *Poly){(*Poly).Add, (*Poly).addGeneric} {
			var p Poly
			f(&p, &a, &b)
			if !c04Cmp(t, "C04/poly/Add", fmt.Sprintf("Add variant %d", vi), &p, &sum, 1, 0) {
				return
			}
		}
		for vi, f := range []func(*Poly, *Poly, *Poly){(*Poly).Sub, (*Poly).subGeneric} {
			var p Poly
			f(&p, &a, &b)
			if !c04Cmp(t, "C04/poly/Sub", fmt.Sprintf("Sub variant %d", vi), &p, &dif, 1, 0) {
				return
			}
		}
		// reductions on arbitrary 32-bit coefficients
		w := c04DrawPoly(t, ^uint32(0), "w")
		rw := c04Ref(&w)
		for vi, f := range []func(*Poly){(*Poly).ReduceLe2Q, (*Poly).reduceLe2QGeneric} {
			p := w
			f(&p)
			if !c04Cmp(t, "C04/poly/ReduceLe2Q", fmt.Sprintf("ReduceLe2Q variant %d", vi), &p, &rw, 1, 2*Q-1) {
				return
			}
		}
		for vi, f := range []func(*Poly){(*Poly).Normalize, (*Poly).normalizeGeneric} {
			p := w
			f(&p)
			if !c04Cmp(t, "C04/poly/Normalize", fmt.Sprintf("Normalize variant %d", vi), &p, &rw, 1, Q-1) {
				return
			}
		}
		for vi, f := range []func(*Poly){(*Poly).NormalizeAssumingLe2Q, (*Poly).normalizeAssumingLe2QGeneric} {
			p := a
			f(&p)
			if !c04Cmp(t, "C04/poly/NormalizeAssumingLe2Q", fmt.Sprintf("NormalizeAssumingLe2Q variant %d", vi), &p, &ra, 1, Q-1) {
				return
			}
		}
		// Exceeds on a normalized polynomial: bound at, just below and just above the true norm
		nrm := a
		nrm.normalizeGeneric()
		var mx int64
		for i := range nrm {
			c := mldsa.Centered(int64(nrm[i]))
			if c < 0 {
				c = -c
			}
			if c > mx {
				mx = c
			}
		}
		bounds := []uint32{uint32(mx), uint32(mx) + 1, 1 << 17, 1<<17 - 78, 1<<19 - 196, 1<<19 - 120, 95232, 95232 - 78, 261888, 261888 - 196, 261888 - 120, uint32(rapid.IntRange(1, (Q-1)/2).Draw(t, "bound"))}
		if mx > 0 {
			bounds = append(bounds, uint32(mx)-1)
		}
		for _, bd := range bounds {
			wantEx := mx >= int64(bd)
			if g := nrm.Exceeds(bd); g != wantEx {
				vlib.Report(t, "C04/poly/Exceeds", fmt.Sprintf("Exceeds(%d) = %v on a polynomial of norm %d", bd, g, mx))
				return
			}
			if g := nrm.exceedsGeneric(bd); g != wantEx {
				vlib.Report(t, "C04/poly/exceedsGeneric", fmt.Sprintf("exceedsGeneric(%d) = %v on a polynomial of norm %d", bd, g, mx))
				return
			}
		}
		// MulBy2toD (inputs < 2^(32-D))
		s := c04DrawPoly(t, 1<<(32-D), "s")
		for vi, f := range []func(*Poly, *Poly){(*Poly).MulBy2toD, (*Poly).mulBy2toDGeneric} {
			var p Poly
			f(&p, &s)
			for i := range p {
				if p[i] != s[i]<<D {
					vlib.Report(t, "C04/poly/MulBy2toD", fmt.Sprintf("variant %d: coefficient %d: %d<<D = %d", vi, i, s[i], p[i]))
					return
				}
			}
		}
	})
}

// TestC04CommonPacking: T0, T1 and Le16 encodings against the generic
// bit-level packer of the reference: every value at every position class, and
// decoding of arbitrary bytes.
func TestC04CommonPacking(t *testing.T) {
	defer vlib.Done()
	c04Selftest(t)
	n := int64(0)
	// T1: values [0,1024), 4 coefficients per 5 bytes
	for shift := 0; shift < 4; shift++ {
		for base := 0; base < 1024; base += N {
			var p Poly
			var rp mldsa.Poly
			for j := 0; j < N; j++ {
				v := uint32((base + j + 257*shift) % 1024)
				p[(j+shift)%N] = v
				rp[(j+shift)%N] = int64(v)
			}
			var buf [PolyT1Size]byte
			p.PackT1(buf[:])
			n++
			if want := mldsa.SimpleBitPack(&rp, 10); !bytes.Equal(buf[:], want) {
				vlib.ReportDirect(t, "C04/pack/T1", fmt.Sprintf("PackT1 differs from SimpleBitPack(10 bits) (base %d shift %d)", base, shift), nil)
				return
			}
			var q Poly
			q.UnpackT1(buf[:])
			if q != p {
				vlib.ReportDirect(t, "C04/pack/T1", "UnpackT1(PackT1(p)) != p", nil)
				return
			}
		}
	}
	vlib.Exhaustive("PackT1/UnpackT1: every value in [0,1024) at every position class (mod 4)", 4*1024, "")
	// T0: centred values (-2^12, 2^12], stored as q + v; 8 coefficients per 13 bytes
	for shift := 0; shift < 8; shift++ {
		for base := 0; base < 8192; base += N {
			var p Poly
			var rp mldsa.Poly
			for j := 0; j < N; j++ {
				v := int64((base+j+1031*shift)%8192) - 4095 // -4095..4096
				p[(j+shift)%N] = uint32(Q + v)
				rp[(j+shift)%N] = (v + Q) % Q
			}
			var buf [PolyT0Size]byte
			p.PackT0(buf[:])
			n++
			if want := mldsa.BitPack(&rp, 1<<(D-1)-1, 1<<(D-1)); !bytes.Equal(buf[:], want) {
				vlib.ReportDirect(t, "C04/pack/T0", fmt.Sprintf("PackT0 differs from BitPack (base %d shift %d)", base, shift), nil)
				return
			}
			var q Poly
			q.UnpackT0(buf[:])
			if q != p {
				vlib.ReportDirect(t, "C04/pack/T0", "UnpackT0(PackT0(p)) != p", nil)
				return
			}
		}
	}
	vlib.Exhaustive("PackT0/UnpackT0: every value in (-2^12,2^12] at every position class (mod 8)", 8*8192, "")
	// Le16
	for shift := 0; shift < 2; shift++ {
		var p Poly
		var rp mldsa.Poly
		for j := 0; j < N; j++ {
			v := uint32((j*7 + shift + j/16) % 16)
			p[j] = v
			rp[j] = int64(v)
		}
		want := mldsa.SimpleBitPack(&rp, 4)
		var b1, b2 [PolyLe16Size]byte
		p.PackLe16(b1[:])
		p.packLe16Generic(b2[:])
		n++
		if !bytes.Equal(b1[:], want) || !bytes.Equal(b2[:], want) {
			vlib.ReportDirect(t, "C04/pack/Le16", "PackLe16 differs from SimpleBitPack(4 bits)", nil)
			return
		}
	}
	vlib.EvalN("packing/common", n)
	// arbitrary bytes
	vlib.Check(t, vlib.N(800, 20000), func(t *rapid.T) {
		vlib.Eval("packing/common-random")
		var b1 [PolyT1Size]byte
		var b0 [PolyT0Size]byte
		vlib.FillRandom(t, b1[:], "t1")
		vlib.FillRandom(t, b0[:], "t0")
		if rapid.IntRange(0, 9).Draw(t, "ones") == 0 {
			for i := range b0 {
				b0[i] = 0xff
			}
			for i := range b1 {
				b1[i] = 0xff
			}
		}
		var p Poly
		p.UnpackT1(b1[:])
		want := mldsa.SimpleBitUnpack(b1[:], 10)
		for i := range p {
			if int64(p[i]) != want[i] {
				vlib.Report(t, "C04/pack/T1", fmt.Sprintf("UnpackT1 coefficient %d = %d, reference %d", i, p[i], want[i]))
				return
			}
		}
		p.UnpackT0(b0[:])
		want = mldsa.BitUnpack(b0[:], 1<<(D-1)-1, 1<<(D-1))
		for i := range p {
			if int64(p[i]%Q) != want[i] || p[i] <= Q-(1<<(D-1)) || p[i] > Q+(1<<(D-1)) {
				vlib.Report(t, "C04/pack/T0", fmt.Sprintf("UnpackT0 coefficient %d = %d, reference %d", i, p[i], want[i]))
				return
			}
		}
		var le Poly
		var rle mldsa.Poly
		for i := range le {
			le[i] = uint32(b0[i] & 15)
			rle[i] = int64(le[i])
		}
		var o1, o2 [PolyLe16Size]byte
		le.PackLe16(o1[:])
		le.packLe16Generic(o2[:])
		w := mldsa.SimpleBitPack(&rle, 4)
		if !bytes.Equal(o1[:], w) || !bytes.Equal(o2[:], w) {
			vlib.Report(t, "C04/pack/Le16", "PackLe16 differs from SimpleBitPack(4 bits)")
		}
	})
}
