//go:build verif && amd64 && !purego

// C12 white-box: GF(2^448-2^224-1) on the three back-ends (generic Go, legacy
// assembly, BMI2/ADX assembly) side by side against math/big.
package fp448

import (
	"math/big"
	"testing"

	"github.com/cloudflare/circl/zz_verif/c12/kit"
	"github.com/cloudflare/circl/zz_verif/vlib"
	"golang.org/x/sys/cpu"
	"pgregory.net/rapid"
)

func c12Type() *kit.EltType[Elt] {
	prime := new(big.Int).Sub(kit.Pow2(448), kit.Pow2(224))
	prime.Sub(prime, big.NewInt(1))
	return &kit.EltType[Elt]{
		F:            &kit.F{Name: "fp448", P: prime, Bits: 448, C: 1},
		Size:         Size,
		From:         func(v *big.Int) (e Elt) { copy(e[:], vlib.LE(v, Size)); return },
		To:           func(e *Elt) *big.Int { return vlib.FromLE(e[:]) },
		InvSqrtNonQR: "sqrt(-x/y)",
	}
}

func c12Backends() []kit.EltOps[Elt] {
	asm := func(name string, flag bool) kit.EltOps[Elt] {
		return kit.EltOps[Elt]{
			Backend: name, Select: func() { hasBmi2Adx = flag },
			Add: addAmd64, Sub: subAmd64, Mul: mulAmd64, Sqr: sqrAmd64,
			AddSub: addsubAmd64, Cmov: cmovAmd64, Cswap: cswapAmd64,
			// composite functions of the package run on the selected assembly path
			Modp: Modp, Neg: Neg, Inv: Inv, InvSqrt: InvSqrt, IsZero: IsZero, IsOne: IsOne, ToBytes: ToBytes, SetOne: SetOne,
		}
	}
	out := []kit.EltOps[Elt]{{
		Backend: "generic",
		Add:     addGeneric, Sub: subGeneric, Mul: mulGeneric, Sqr: sqrGeneric,
		AddSub: addsubGeneric, Cmov: cmovGeneric, Cswap: cswapGeneric,
		Neg:  func(z, x *Elt) { subGeneric(z, &p, x) },
		Modp: func(z *Elt) { subGeneric(z, z, &p) },
	}, asm("asm-legacy", false)}
	if cpu.X86.HasBMI2 && cpu.X86.HasADX {
		out = append(out, asm("asm-bmi2adx", true))
	} else {
		vlib.Note("fp448: CPU lacks BMI2/ADX, that back-end is not evaluated")
	}
	return out
}

func TestVerifC12Fp448(t *testing.T) {
	defer vlib.Done()
	saved := hasBmi2Adx
	defer func() { hasBmi2Adx = saved }()
	ty, bes := c12Type(), c12Backends()
	if P() != ty.From(ty.F.P) || One() != ty.From(big.NewInt(1)) {
		vlib.ReportDirect(t, "C12/fp448/P/api/wrong-constant", "P() is not 2^448-2^224-1 or One() is not 1", nil)
	}
	for _, be := range bes[1:] {
		be.Select()
		kit.SweepPredicates(t, &kit.Preds[Elt]{F: ty.F, Type: "fp448", Backend: be.Backend, From: ty.From, IsZero: IsZero, IsOne: IsOne})
	}
	vlib.Check(t, vlib.N(20000, 100000), func(t *rapid.T) { kit.CheckElt(t, ty, bes) })
}
