//go:build verif && amd64 && !purego

// C06 white-box, field level (generated from /verif/harness/dh/c06gen/fp_template.go.txt by gen.py).
// Mul and Sqr of fp448 on the generic, legacy-assembly and BMI2/ADX back-ends with
// PRODUCT-STRUCTURED operands (ref/prodgen: the double-width product is chosen first, its upper
// limbs at the values where the carry columns of the reduction wrap) against math/big.
// C12 covers the field with limb-structured operands; this file adds the operand class that
// reaches the carries of the reduction of a product.
package fp448

import (
	"fmt"
	"math/big"
	"sync"
	"testing"

	"github.com/cloudflare/circl/zz_verif/ref/prodgen"
	"github.com/cloudflare/circl/zz_verif/vlib"
	"golang.org/x/sys/cpu"
	"pgregory.net/rapid"
)

var c06FpMu sync.Mutex

func c06FpWith(v bool, f func()) {
	c06FpMu.Lock()
	defer c06FpMu.Unlock()
	old := hasBmi2Adx
	hasBmi2Adx = v
	defer func() { hasBmi2Adx = old }()
	f()
}

func TestVerifC06FieldProducts(t *testing.T) {
	defer vlib.Done()
	const sub = "whitebox/fp448.products"
	pp := P()
	p := vlib.FromLE(pp[:])
	type backend struct {
		name         string
		native, bmi2 bool
	}
	bes := []backend{{"generic", false, false}, {"asm-legacy", true, false}}
	if cpu.X86.HasBMI2 && cpu.X86.HasADX {
		bes = append(bes, backend{"asm-bmi2adx", true, true})
	}
	vlib.Check(t, vlib.N(6000, 100000), func(t *rapid.T) {
		x, y, kind := prodgen.Factors(t, Size/8, 0, "prod")
		var ex, ey Elt
		copy(ex[:], vlib.LE(x, Size))
		copy(ey[:], vlib.LE(y, Size))
		op := rapid.SampledFrom([]string{"Mul", "Sqr", "Sqr-y"}).Draw(t, "op")
		var want *big.Int
		switch op {
		case "Mul":
			want = new(big.Int).Mul(x, y)
		case "Sqr":
			want = new(big.Int).Mul(x, x)
		default:
			want = new(big.Int).Mul(y, y)
		}
		want.Mod(want, p)
		vlib.Eval(sub)
		for _, be := range bes {
			var z Elt
			run := func() {
				switch {
				case op == "Mul" && be.native:
					mul(&z, &ex, &ey)
				case op == "Mul":
					mulGeneric(&z, &ex, &ey)
				case op == "Sqr" && be.native:
					sqr(&z, &ex)
				case op == "Sqr":
					sqrGeneric(&z, &ex)
				case be.native:
					sqr(&z, &ey)
				default:
					sqrGeneric(&z, &ey)
				}
			}
			if be.native {
				c06FpWith(be.bmi2, run)
			} else {
				run()
			}
			got := vlib.FromLE(z[:])
			got.Mod(got, p)
			vlib.Class(sub, "op="+op+"/"+be.name+"/"+kind)
			if got.Cmp(want) != 0 {
				if vlib.Report(t, "C06/whitebox/fp448/"+be.name+"/"+op[:3]+"-wrong", fmt.Sprintf("op=%s kind=%s x=%x y=%x got=%x want=%x", op, kind, x, y, got, want)) {
					return
				}
			}
		}
		vlib.NonTrivial(sub, "", []byte(op), x.Bytes(), y.Bytes())
	})
}
