//go:build verif && amd64 && !purego

// C06 white-box, field level (generated from /verif/harness/dh/c06gen/fp_template.go.txt by gen.py).
// Mul and Sqr of fp448 on the generic, legacy-assembly and BMI2/ADX back-ends with
// PRODUCT-STRUCTURED operands (ref/prodgen: the double-width product is chosen first, its upper
// limbs at the values where the carry columns of the reduction wrap) against math/big.
// C12 covers the field with limb-structured operands; this file adds the operand class that
// reaches the carries of the reduction of a product.
package fp448

import (
	"fmt"
	"math/big"
	"sync"
	"testing"

	"github.com/cloudflare/circl/zz_verif/ref/prodgen"
	"github.com/cloudflare/circl/zz_verif/vlib"
	"golang.org/x/sys/cpu"
	"pgregory.net/rapid"
)

var c06FpMu sync.Mutex

func c06FpWith(v bool, f func()) {
	c06FpMu.Lock()
	defer c06FpMu.Unlock()
	old := hasBmi2Adx
	hasBmi2Adx = v
	defer func() { hasBmi2Adx = old }()
	f()
}

func TestVerifC06FieldProducts(t *testing.T) {
	defer vlib.Done()
	const sub = "whitebox/fp448.products"
	pp := P()
	p := vlib.FromLE(pp[:])
	type backend struct {
		name         string
		native, bmi2 bool
	}
	bes := []backend{{"generic", false, false}, {"asm-legacy", true, false}}
	if cpu.X86.HasBMI2 && cpu.X86.HasADX {
		bes = append(bes, backend{"asm-bmi2adx", true, true})
	}
	vlib.Check(t, vlib.N(6000, 100000), func(t *rapid.T) {
		x, y, kind := prodgen.Factors(t, Size/8, 0, "prod")
		var ex, ey Elt
		copy(ex[:], vlib.LE(x, Size))
		copy(ey[:], vlib.LE(y, Size))
		op := rapid.SampledFrom([]string{"Mul", "Sqr", "Sqr-y"}).Draw(t, "op")
		var want *big.Int
		switch op {
		case "Mul":
			want = new(big.Int).Mul(x, y)
		case "Sqr":
			want = new(big.Int).Mul(x, x)
		default:
			want = new(big.Int).Mul(y, y)
		}
		want.Mod(want, p)
		vlib.Eval(sub)
		for _, be := range bes {
			var z Elt
			run := func() {
				switch {
				case op == "Mul" && be.native:
					mul(&z, &ex, &ey)
				case op == "Mul":
					mulGeneric(&z, &ex, &ey)
				case op == "Sqr" && be.native:
					sqr(&z, &ex)
				case op == "Sqr":
					sqrGeneric(&z, &ex)
				case be.native:
					sqr(&z, &ey)
				default:
					sqrGeneric(&z, &ey)
				}
			}
			if be.native {
				c06FpWith(be.bmi2, run)
			} else {
				run()
			}
			got := vlib.FromLE(z[:])
			got.Mod(got, p)
			vlib.Class(sub, "op="+op+"/"+be.name+"/"+kind)
			if got.Cmp(want) != 0 {
				if vlib.Report(t, "C06/whitebox/fp448/"+be.name+"/"+op[:3]+"-wrong", fmt.Sprintf("op=%s kind=%s x=%x y=%x got=%x want=%x", op, kind, x, y, got, want)) {
					return
				}
			}
		}
		vlib.NonTrivial(sub, "", []byte(op), x.Bytes(), y.Bytes())
	})
}

// TestVerifC06FieldCanonical: the final reduction (Modp / ToBytes) on values that have two
// representatives below 2^(8*Size): [0, 2^(8*Size)-p) and [p, 2^(8*Size)), native code under both
// settings of hasBmi2Adx and the generic function.
func TestVerifC06FieldCanonical(t *testing.T) {
	defer vlib.Done()
	const sub = "whitebox/fp448.canonical"
	pp := P()
	p := vlib.FromLE(pp[:])
	width := new(big.Int).Lsh(big.NewInt(1), uint(8*Size))
	bound := new(big.Int).Sub(width, p)
	vlib.Check(t, vlib.N(4000, 60000), func(t *rapid.T) {
		// v: the canonical value; x = v + j*p, every representative that fits the element width
		var v *big.Int
		switch rapid.IntRange(0, 3).Draw(t, "k") {
		case 0:
			v = big.NewInt(int64(rapid.IntRange(0, 40).Draw(t, "small")))
		case 1:
			v = new(big.Int).Sub(bound, big.NewInt(int64(rapid.IntRange(-3, 3).Draw(t, "d"))))
			v.Mod(v, p)
		case 2:
			b := make([]byte, Size)
			vlib.FillRandom(t, b, "v")
			v = vlib.FromLE(b)
			v.Rsh(v, uint(rapid.IntRange(0, 8*Size-1).Draw(t, "sh")))
			v.Mod(v, p)
		default:
			v = new(big.Int).Sub(p, big.NewInt(int64(rapid.IntRange(1, 40).Draw(t, "below"))))
		}
		x := new(big.Int).Set(v)
		for j := rapid.IntRange(0, 2).Draw(t, "j"); j > 0; j-- {
			if n := new(big.Int).Add(x, p); n.Cmp(width) < 0 {
				x = n
			}
		}
		cls := "two-representatives"
		if rapid.IntRange(0, 2).Draw(t, "boundary") > 0 {
			// next to a limb boundary / power of two / multiple of p, and the limb-edge classes of vlib
			var extra *big.Int
			cc := uint64(19)
			if Size == 56 {
				extra = new(big.Int).Lsh(big.NewInt(1), 224)
				cc = 1
			}
			switch rapid.IntRange(0, 3).Draw(t, "bk") {
			case 0:
				x, cls = vlib.Limbs(t, Size/8, cc, "limbs"), "limb-edge"
			case 1:
				x, cls = vlib.NearModulus(t, p, 8*Size, "near"), "near-modulus"
			default:
				x, cls = prodgen.Boundary(t, Size/8, cc, p, extra, "b")
			}
			v = new(big.Int).Mod(x, p)
		}
		var e Elt
		copy(e[:], vlib.LE(x, Size))
		want := vlib.LE(v, Size)
		vlib.Eval(sub)
		check := func(name string, got []byte) bool {
			if string(got) != string(want) {
				vlib.Report(t, "C06/whitebox/fp448/"+name+"-not-canonical", fmt.Sprintf("x=%x got=%x want=%x", x, got, want))
				return false
			}
			return true
		}
		g := e
		Modp(&g)
		if !check("modpGeneric", g[:]) {
			return
		}
		for _, bmi := range []bool{false, true} {
			if bmi && !(cpu.X86.HasBMI2 && cpu.X86.HasADX) {
				continue
			}
			m := e
			out := make([]byte, Size)
			tb := e
			c06FpWith(bmi, func() {
				Modp(&m)
				_ = ToBytes(out, &tb)
			})
			if !check("Modp", m[:]) || !check("ToBytes", out) {
				return
			}
			iz := e
			var isz bool
			c06FpWith(bmi, func() { isz = IsZero(&iz) })
			if isz != (v.Sign() == 0) {
				vlib.Report(t, "C06/whitebox/fp448/IsZero-wrong", fmt.Sprintf("x=%x IsZero=%v", x, isz))
				return
			}
		}
		vlib.Class(sub, "x="+cls)
		vlib.NonTrivial(sub, "", x.Bytes())
	})
}
