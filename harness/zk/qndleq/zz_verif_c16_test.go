//go:build verif

// C16 white-box sub-check for zk/qndleq: statements whose gx and hx are BOTH non-units
// modulo N are false (every power of a unit is a unit); a proof whose C is the package's own
// challenge of such a statement with degenerate commitments (0 and 0; 1 and 1; g^Z and h^Z)
// must not verify. Uses the unexported doChallenge, so it follows the package's transcript
// format whatever it is (the black-box package zz_verif/c16 has a calibrated replica).
package qndleq

import (
	"bufio"
	"fmt"
	"math/big"
	"os"
	"path/filepath"
	"strings"
	"testing"

	"github.com/cloudflare/circl/zz_verif/vlib"
	"pgregory.net/rapid"
)

func c16wbPool(t *testing.T) []*big.Int {
	f, err := os.Open(filepath.Join(vlib.Harness, "zz_verif", "c16", "testdata", "safeprimes.txt"))
	if err != nil {
		t.Fatalf("SELFTEST-FAIL safe prime pool: %v", err)
	}
	defer f.Close()
	var out []*big.Int
	sc := bufio.NewScanner(f)
	for sc.Scan() {
		line := strings.TrimSpace(sc.Text())
		if line == "" || strings.HasPrefix(line, "#") {
			continue
		}
		var bits int
		var hexp string
		if _, err := fmt.Sscanf(line, "%d %s", &bits, &hexp); err != nil {
			t.Fatalf("SELFTEST-FAIL safe prime pool: bad line %q", line)
		}
		p, ok := new(big.Int).SetString(hexp, 16)
		if !ok || p.BitLen() != bits || !p.ProbablyPrime(24) || !new(big.Int).Rsh(p, 1).ProbablyPrime(24) {
			t.Fatalf("SELFTEST-FAIL safe prime pool: %q is not a %d-bit safe prime", hexp, bits)
		}
		out = append(out, p)
	}
	if len(out) < 4 {
		t.Fatalf("SELFTEST-FAIL safe prime pool too small")
	}
	return out
}

func TestC16WBNonUnitStatements(t *testing.T) {
	defer vlib.Done()
	pool := c16wbPool(t)
	vlib.Selftest("safe-prime-pool (white-box)", "ok")
	sub := "qndleq-nonunit-whitebox"
	one := big.NewInt(1)
	vlib.Check(t, vlib.N(300, 3000), func(t *rapid.T) {
		i := rapid.IntRange(0, len(pool)-1).Draw(t, "p")
		j := rapid.IntRange(0, len(pool)-2).Draw(t, "q")
		if j >= i {
			j++
		}
		p, q := pool[i], pool[j]
		N := new(big.Int).Mul(p, q)
		square := func(lbl string) *big.Int {
			for ctr := 0; ; ctr++ {
				b := make([]byte, (N.BitLen()+7)/8+8)
				vlib.FillRandom(t, b, fmt.Sprintf("%s.%d", lbl, ctr))
				y := new(big.Int).SetBytes(b)
				y.Mul(y, y).Mod(y, N)
				if new(big.Int).GCD(nil, nil, y, N).Cmp(one) == 0 && y.Cmp(one) != 0 {
					return y
				}
			}
		}
		g, h := square("g"), square("h")
		nonUnit := func(lbl string) (*big.Int, string) {
			kind := rapid.SampledFrom([]string{"0", "N", "p", "q", "k·p", "k·q"}).Draw(t, lbl+".kind")
			switch kind {
			case "0":
				return big.NewInt(0), kind
			case "N":
				return new(big.Int).Set(N), kind
			case "p":
				return new(big.Int).Set(p), kind
			case "q":
				return new(big.Int).Set(q), kind
			}
			f, o := p, q
			if kind == "k·q" {
				f, o = q, p
			}
			kb := make([]byte, (o.BitLen()+7)/8)
			vlib.FillRandom(t, kb, lbl+".k")
			k := new(big.Int).SetBytes(kb)
			if rapid.Bool().Draw(t, lbl+".small") {
				k.SetInt64(int64(rapid.IntRange(2, 1000).Draw(t, lbl+".ks")))
			}
			k.Mod(k, o)
			if k.Sign() == 0 {
				k.SetInt64(3)
			}
			return k.Mul(k, f), kind
		}
		var gx, hx *big.Int
		var kg, kh string
		if rapid.Bool().Draw(t, "same") {
			gx, kg = nonUnit("nu")
			hx, kh = new(big.Int).Set(gx), kg
			if kg != "0" && kg != "N" && rapid.Bool().Draw(t, "times3") {
				hx.Mul(hx, big.NewInt(3)).Mod(hx, N)
				kh = "3·" + kg
			}
		} else {
			gx, kg = nonUnit("nug")
			hx, kh = nonUnit("nuh")
		}
		vlib.Class(sub, "gx="+kg+",hx="+kh)
		zb := make([]byte, (N.BitLen()+7)/8)
		vlib.FillRandom(t, zb, "Z")
		zs := []*big.Int{big.NewInt(0), big.NewInt(7), new(big.Int).SetBytes(zb)}
		desc := fmt.Sprintf("FALSE STATEMENT (gx, hx both non-units) N=%v (p=%v q=%v) g=%v h=%v gx=%v [%s] hx=%v [%s]", N, p, q, g, h, gx, kg, hx, kh)
		for _, sp := range []uint{128, 256} {
			for _, z := range zs {
				commits := []struct {
					cls    string
					gP, hP *big.Int
				}{
					{"commitments=0,0", big.NewInt(0), big.NewInt(0)},
					{"commitments=1,1", big.NewInt(1), big.NewInt(1)},
					{"commitments=g^Z,h^Z", new(big.Int).Exp(g, z, N), new(big.Int).Exp(h, z, N)},
				}
				for _, cm := range commits {
					vlib.Eval(sub)
					vlib.Class(sub, "recomputed-C:"+cm.cls)
					pr := Proof{Z: z, C: doChallenge(g, gx, h, hx, cm.gP, cm.hP, N, sp), SecParam: sp}
					var ok bool
					pn, st := vlib.Catch(func() { ok = pr.Verify(g, gx, h, hx, N) })
					cdesc := fmt.Sprintf("%s PROOF recomputed-C:%s Proof{Z:%v C:%v SecParam:%d}", desc, cm.cls, pr.Z, pr.C, pr.SecParam)
					if pn != nil {
						vlib.Report(t, "C16/qndleq/nonunit/panic/"+vlib.PanicClass(pn), fmt.Sprintf("%s: panic %v\n%s", cdesc, pn, st))
						return
					}
					if ok {
						vlib.Report(t, "C16/qndleq/false-statement-verifies/nonunit-statement/recomputed-C", cdesc+": Verify = true although gx and hx are not units (no power of g equals gx)")
						return
					}
					vlib.NonTrivial(sub, "", []byte(cdesc))
					vlib.Sample(sub, "recomputed-C", cdesc+" → false")
				}
			}
		}
	})
}
