//go:build verif

// C16 white-box sub-check for zk/dl: for every element X of the Fiat–Shamir transcript
// (A = kG, G, V) a proof is built that would verify exactly if X were NOT bound by the
// challenge: V and R (or the other elements) are chosen freely, the package's own
// calcChallenge is evaluated with a dummy in X's place, and the verification equation
// V = R·G + c·A is solved for X itself. Verify must be false for all of them.
package dl

import (
	"fmt"
	"testing"

	"github.com/cloudflare/circl/group"
	"github.com/cloudflare/circl/zz_verif/vlib"
	"pgregory.net/rapid"
)

func TestC16WBChallengeBindsEveryElement(t *testing.T) {
	defer vlib.Done()
	groups := []struct {
		name  string
		g     group.Group
		quick int
	}{
		{"ristretto255", group.Ristretto255, 120},
		{"P256", group.P256, 120},
		{"P384", group.P384, 40},
		{"P521", group.P521, 20},
	}
	for _, gi := range groups {
		gi := gi
		t.Run(gi.name, func(t *testing.T) {
			g := gi.g
			sub := "dl-resolve-whitebox/" + gi.name
			vlib.Check(t, vlib.N(gi.quick, 8*gi.quick), func(t *rapid.T) {
				scalar := func(lbl string) group.Scalar {
					switch rapid.IntRange(0, 5).Draw(t, lbl+".sk") {
					case 0:
						return g.NewScalar().SetUint64(uint64(rapid.IntRange(1, 3).Draw(t, lbl+".small")))
					default:
						return g.RandomNonZeroScalar(vlib.DrawReader(t, lbl))
					}
				}
				elem := func(lbl string) group.Element {
					if rapid.IntRange(0, 3).Draw(t, lbl+".ek") == 0 {
						return g.HashToElement(vlib.Bytes(t, 1, 16, lbl+".h"), []byte("C16-wb"))
					}
					return g.NewElement().MulGen(scalar(lbl + ".m"))
				}
				G := g.Generator()
				if rapid.Bool().Draw(t, "otherG") {
					G = elem("G")
				}
				uid := vlib.Bytes(t, 0, 16, "uid")
				oi := vlib.Bytes(t, 0, 16, "oi")
				dummies := []group.Element{g.Identity(), g.Generator(), elem("dummy")}
				dummy := dummies[rapid.IntRange(0, 2).Draw(t, "dummyKind")]
				sub2 := func(a, b group.Element) group.Element { return g.NewElement().Add(a, g.NewElement().Neg(b)) }
				check := func(cls string, G2, A2 group.Element, p Proof) bool {
					if G2.IsIdentity() && A2.IsIdentity() || A2.IsIdentity() && p.V.IsEqual(g.NewElement().Mul(G2, p.R)) {
						// A = identity with V = R·G is a valid proof of knowledge of k = 0
						vlib.Class(sub, "skipped: degenerate solution")
						return true
					}
					vlib.Eval(sub)
					vlib.Class(sub, cls)
					var ok bool
					pn, st := vlib.Catch(func() { ok = Verify(g, G2, A2, p, uid, oi) })
					gb, _ := G2.MarshalBinaryCompress()
					ab, _ := A2.MarshalBinaryCompress()
					vb, _ := p.V.MarshalBinaryCompress()
					rb, _ := p.R.MarshalBinary()
					desc := fmt.Sprintf("group=%s CASE %s G=%x A=%x V=%x R=%x userID=%x otherInfo=%x", gi.name, cls, gb, ab, vb, rb, uid, oi)
					if pn != nil {
						vlib.Report(t, "C16/dl-resolve-whitebox/"+gi.name+"/panic/"+vlib.PanicClass(pn), fmt.Sprintf("%s: panic %v\n%s", desc, pn, st))
						return false
					}
					if ok {
						vlib.Report(t, "C16/dl-resolve-whitebox/"+gi.name+"/verifies/"+cls, desc+": Verify = true for a proof made without a witness (the challenge does not bind the re-solved element)")
						return false
					}
					vlib.NonTrivial(sub, "", []byte(desc))
					vlib.Sample(sub, cls, desc+" → false")
					return true
				}
				// (A) statement element A chosen after the challenge: A = c^-1·(V − R·G)
				{
					V, R := elem("V"), scalar("R")
					if rapid.IntRange(0, 3).Draw(t, "R0") == 0 {
						R = g.NewScalar()
					}
					c := calcChallenge(g, G, V, dummy, uid, oi)
					if !c.IsZero() {
						A := g.NewElement().Mul(sub2(V, g.NewElement().Mul(G, R)), g.NewScalar().Inv(c))
						if !check("resolve-A", G, A, Proof{V, R}) {
							return
						}
					}
					// the false statement G = identity, A ≠ identity, R = 0: A = c^-1·V
					I := g.Identity()
					c = calcChallenge(g, I, V, dummy, uid, oi)
					if !c.IsZero() {
						A := g.NewElement().Mul(V, g.NewScalar().Inv(c))
						if !check("resolve-A,G=identity,R=0", I, A, Proof{V, g.NewScalar()}) {
							return
						}
					}
				}
				// (G) base chosen after the challenge: G = R^-1·(V − c·A)
				{
					V, R, A := elem("V2"), scalar("R2"), elem("A2")
					c := calcChallenge(g, dummy, V, A, uid, oi)
					G2 := g.NewElement().Mul(sub2(V, g.NewElement().Mul(A, c)), g.NewScalar().Inv(R))
					if !check("resolve-G", G2, A, Proof{V, R}) {
						return
					}
				}
				// (V) commitment chosen after the challenge: V = R·G + c·A
				{
					R, A := scalar("R3"), elem("A3")
					c := calcChallenge(g, G, dummy, A, uid, oi)
					V := g.NewElement().Add(g.NewElement().Mul(G, R), g.NewElement().Mul(A, c))
					if !check("resolve-V", G, A, Proof{V, R}) {
						return
					}
				}
			})
		})
	}
}
