//go:build verif

// C09 (white-box): tkn20 matrixG1 / matrixG2 parsing. unmarshalBinary accepts data ⇒ every
// 96-/192-byte slot is the canonical uncompressed ZCash encoding of a member of G1 / G2
// (independent reference) and marshalBinary gives exactly data back; every matrix the
// library serialises parses again and is Equal.
package tkn

import (
	"bytes"
	"encoding/binary"
	"fmt"
	"math/big"
	"testing"

	"github.com/cloudflare/circl/zz_verif/ref/decode"
	"github.com/cloudflare/circl/zz_verif/vlib"
	"pgregory.net/rapid"
)

type verifC09Matrix interface {
	marshalBinary() ([]byte, error)
	unmarshalBinary([]byte) error
}

func verifC09DrawBelow(t *rapid.T, n *big.Int, label string) *big.Int {
	b := make([]byte, (n.BitLen()+7)/8+8)
	vlib.FillRandom(t, b, label)
	v := new(big.Int).SetBytes(b)
	return v.Mod(v, n)
}

func verifC09CurvePoint(t *rapid.T, g decode.BLSGroup, label string) decode.WPoint {
	for i := 0; ; i++ {
		x := decode.E2{A: verifC09DrawBelow(t, decode.BLSP, fmt.Sprintf("%s.a%d", label, i)), B: new(big.Int)}
		if g == 2 {
			x.B = verifC09DrawBelow(t, decode.BLSP, fmt.Sprintf("%s.b%d", label, i))
		}
		if P, ok := decode.BLSLift(g, x, nil); ok {
			return P
		}
		if i > 200 {
			t.Fatalf("harness: no liftable x")
		}
	}
}

var verifC09Kinds = []string{"valid", "bitflip", "bitflip", "compressed-in-slot", "compressed-in-slot", "oncurve-not-subgroup", "cofactor-component", "coord>=p", "infinity", "infinity-stray", "flags", "random-slot", "header", "structured-valid", "structured-valid"}

func verifC09Run(t *testing.T, g decode.BLSGroup, name string, fresh func() verifC09Matrix, random func(*rapid.T, int, int) verifC09Matrix, equal func(a, b verifC09Matrix) bool) {
	sub := "tkn20." + name + ".unmarshalBinary"
	slot := 2 * g.CoordSize()
	vlib.Check(t, vlib.N(250, 2500)/int(g), func(t *rapid.T) {
		r := rapid.IntRange(1, 3).Draw(t, "rows")
		c := rapid.IntRange(1, 2).Draw(t, "cols")
		m := random(t, r, c)
		v, err := m.marshalBinary()
		if err != nil || len(v) != 4+slot*r*c {
			t.Fatalf("harness: marshalBinary: %v", err)
		}
		kind := rapid.SampledFrom(verifC09Kinds).Draw(t, "kind")
		b := append([]byte{}, v...)
		k := rapid.IntRange(0, r*c-1).Draw(t, "slot")
		s := b[4+slot*k : 4+slot*(k+1)]
		switch kind {
		case "bitflip":
			i := rapid.IntRange(0, 8*len(b)-1).Draw(t, "bit")
			if rapid.IntRange(0, 2).Draw(t, "hot") == 0 {
				i = 8*(4+slot*k) + rapid.IntRange(0, 7).Draw(t, "hotbit")
			}
			b[i/8] ^= 1 << (i % 8)
		case "compressed-in-slot":
			// the compressed encoding of the entry followed by padding: zeros, junk, or the y coordinate
			ref := decode.BLSDecode(g, s)
			if ref.OK {
				ce := decode.BLSEncode(g, ref.P, true)
				copy(s, ce)
				switch rapid.IntRange(0, 2).Draw(t, "pad") {
				case 0:
					for i := len(ce); i < slot; i++ {
						s[i] = 0
					}
				case 1:
					vlib.FillRandom(t, s[len(ce):], "junk")
				}
			}
		case "oncurve-not-subgroup":
			copy(s, decode.BLSEncode(g, verifC09CurvePoint(t, g, "pt"), false))
		case "cofactor-component":
			copy(s, decode.BLSEncode(g, decode.WMul(decode.BLSR, verifC09CurvePoint(t, g, "pt")), false))
		case "coord>=p":
			nl := slot / 48
			l := rapid.IntRange(0, nl-1).Draw(t, "limb")
			val := new(big.Int).Add(new(big.Int).SetBytes(s[48*l:48*l+48]), decode.BLSP)
			lim := uint(384)
			if l == 0 {
				lim = 381
			}
			if val.BitLen() > int(lim) {
				val = new(big.Int).Add(decode.BLSP, big.NewInt(int64(rapid.IntRange(0, 9).Draw(t, "small"))))
			}
			val.FillBytes(s[48*l : 48*l+48])
		case "structured-valid":
			// a member built by the reference: ±k·G for small k (k = 0: the identity), uncompressed
			P := decode.WMul(big.NewInt(int64(rapid.IntRange(0, 48).Draw(t, "k"))), decode.BLSGen(g))
			if rapid.Bool().Draw(t, "neg") {
				P = decode.WNeg(P)
			}
			copy(s, decode.BLSEncode(g, P, false))
		case "infinity":
			for i := range s {
				s[i] = 0
			}
			s[0] = 0x40
		case "infinity-stray":
			for i := range s {
				s[i] = 0
			}
			s[0] = 0x40
			i := rapid.IntRange(3, 8*slot-1).Draw(t, "bit")
			s[i/8] |= 1 << (7 - i%8)
		case "flags":
			s[0] = s[0]&0x1f | byte(rapid.IntRange(1, 7).Draw(t, "flagbits"))<<5
		case "random-slot":
			vlib.FillRandom(t, s, "rnd")
			s[0] &= 0x0f
		case "header":
			// another (rows, cols) with the same product, or a different one
			binary.LittleEndian.PutUint16(b[0:], uint16(c))
			binary.LittleEndian.PutUint16(b[2:], uint16(r))
			if rapid.Bool().Draw(t, "other") {
				binary.LittleEndian.PutUint16(b[0:], uint16(rapid.IntRange(0, 65535).Draw(t, "rows'")))
			}
		}
		valid := bytes.Equal(b, v)
		vlib.Eval(sub)
		{
			// the same input decoded into a matrix that already holds another matrix (of another shape), or the
			// remains of a rejected decode: verdict and re-serialisation must be those of a fresh receiver
			type obs struct {
				ok  bool
				pan interface{}
				out []byte
			}
			look := func(mm verifC09Matrix) (o obs) {
				o.pan, _ = vlib.Catch(func() {
					o.ok = mm.unmarshalBinary(b) == nil
					if o.ok {
						o.out, _ = mm.marshalBinary()
					}
				})
				return o
			}
			fr := look(fresh())
			states := []string{"other-matrix", "after-rejected-decode", "same-input-twice"}
			st := int(vlib.Hash64([]byte("recv"), b) % uint64(len(states)))
			var um verifC09Matrix
			switch st {
			case 0:
				um = random(t, 3-r+1, c)
			case 1:
				um = random(t, r, c)
				bad := append([]byte{}, v...)
				for i := 4; i < len(bad); i++ {
					bad[i] = 0xff
				}
				vlib.Catch(func() { _ = um.unmarshalBinary(bad) })
			default:
				um = fresh()
				vlib.Catch(func() { _ = um.unmarshalBinary(b) })
			}
			us := look(um)
			vlib.Class(sub, "used-receiver state="+states[st])
			if fr.pan == nil {
				detail := fmt.Sprintf("receiver state=%s data=%x fresh={ok=%v} used={ok=%v panic=%v out=%x}", states[st], b, fr.ok, us.ok, us.pan, us.out)
				switch {
				case us.pan != nil:
					vlib.Report(t, "C09/receiver/"+sub+"/panics-with-used-receiver", detail)
					return
				case us.ok != fr.ok:
					vlib.Report(t, "C09/receiver/"+sub+"/verdict-differs", detail)
					return
				case us.ok && !bytes.Equal(us.out, fr.out):
					vlib.Report(t, "C09/receiver/"+sub+"/value-differs", detail)
					return
				case us.ok:
					vlib.Class(sub, "used-receiver accepted: compared with fresh decode")
				}
			}
		}
		m2 := fresh()
		var uerr error
		if pn, _ := vlib.Catch(func() { uerr = m2.unmarshalBinary(b) }); pn != nil {
			vlib.Class(sub, "panic(counted; property C10): "+vlib.PanicClass(pn))
			return
		}
		accepted := uerr == nil
		// reference verdict: header consistent and every slot a canonical uncompressed member
		refOK, stage := true, "ok"
		rr, cc := int(binary.LittleEndian.Uint16(b[0:])), int(binary.LittleEndian.Uint16(b[2:]))
		if len(b)-4 != slot*rr*cc {
			refOK, stage = false, "header-length"
		} else {
			for i := 0; i < rr*cc && refOK; i++ {
				if res := decode.BLSDecode(g, b[4+slot*i:4+slot*(i+1)]); !res.OK {
					refOK, stage = false, res.Stage
				}
			}
		}
		acc := "rejected"
		if accepted {
			acc = "accepted"
		}
		vlib.Class(sub, "kind="+kind)
		vlib.Class(sub, "ref-stage="+stage)
		if valid {
			vlib.Class(sub, "library-encoding:"+acc)
		} else {
			vlib.NonTrivial(sub, "adversarial:"+acc, b)
			vlib.Class(sub, "adversarial:"+kind+":"+acc)
		}
		if refOK && !accepted {
			vlib.Class(sub, "ref-accepts/circl-rejects(counted only)")
		}
		vlib.Sample(sub, kind+":"+acc, fmt.Sprintf("%s %dx%d kind=%s slot=%d data=%s → %s ref=%s", sub, r, c, kind, k, vlib.Hex(b), acc, stage))
		if valid && !accepted {
			vlib.Report(t, "C09/completeness/"+sub+"/rejects-library-encoding", fmt.Sprintf("data=%x err=%v", b, uerr))
			return
		}
		if (kind == "structured-valid" || kind == "infinity") && refOK {
			vlib.Class(sub, "reference-constructed valid encoding ("+kind+")")
			if !accepted {
				vlib.Report(t, "C09/completeness/"+sub+"/rejects-valid-encoding", fmt.Sprintf("kind=%s slot=%d data=%x: every entry is the canonical uncompressed encoding of a member, yet the matrix is rejected: %v", kind, k, b, uerr))
				return
			}
		}
		if !accepted {
			return
		}
		if !refOK {
			vlib.Report(t, "C09/soundness/"+sub+"/"+stage, fmt.Sprintf("kind=%s slot=%d data=%x accepted; the reference rejects an entry (%s)", kind, k, b, stage))
			return
		}
		out, merr := m2.marshalBinary()
		if merr != nil || !bytes.Equal(out, b) {
			vlib.Report(t, "C09/soundness/"+sub+"/reencode-differs", fmt.Sprintf("kind=%s slot=%d data=%x re-serialised=%x err=%v", kind, k, b, out, merr))
			return
		}
		if valid && !(equal(m, m2) && equal(m2, m)) {
			vlib.Report(t, "C09/completeness/"+sub+"/not-equal-after-roundtrip", fmt.Sprintf("data=%x", b))
			return
		}
	})
}

func TestVerifC09MatrixG1(t *testing.T) {
	defer vlib.Done()
	verifC09Run(t, 1, "matrixG1",
		func() verifC09Matrix { return new(matrixG1) },
		func(t *rapid.T, r, c int) verifC09Matrix {
			m, err := randomMatrixG1(vlib.DrawReader(t, "m"), r, c)
			if err != nil {
				t.Fatalf("harness: randomMatrixG1: %v", err)
			}
			return m
		},
		func(a, b verifC09Matrix) bool { return a.(*matrixG1).Equal(b.(*matrixG1)) })
}

func TestVerifC09MatrixG2(t *testing.T) {
	defer vlib.Done()
	verifC09Run(t, 2, "matrixG2",
		func() verifC09Matrix { return new(matrixG2) },
		func(t *rapid.T, r, c int) verifC09Matrix {
			m, err := randomMatrixG2(vlib.DrawReader(t, "m"), r, c)
			if err != nil {
				t.Fatalf("harness: randomMatrixG2: %v", err)
			}
			return m
		},
		func(a, b verifC09Matrix) bool { return a.(*matrixG2).Equal(b.(*matrixG2)) })
}
