//go:build verif

package tkn

import (
	"bytes"
	"fmt"
	"testing"

	"github.com/cloudflare/circl/zz_verif/vlib"
	"golang.org/x/crypto/blake2b"
)

func TestC20ProbeExploit(t *testing.T) {
	rd := vlib.NewReader(7)
	pp, sp, err := GenerateParams(rd)
	if err != nil {
		t.Fatal(err)
	}
	hk := []byte("attribute value hashing")
	pol := &Policy{
		Inputs: []Wire{
			{Label: "a", RawValue: "1", Value: HashStringToScalar(hk, "1"), Positive: true},
			{Label: "b", RawValue: "2", Value: HashStringToScalar(hk, "2"), Positive: true},
		},
		F: Formula{Gates: []Gate{{Class: Andgate, In0: 0, In1: 1, Out: 2}}},
	}
	msg := []byte("top secret")
	ct, err := EncryptCCA(rd, pp, pol, msg)
	if err != nil {
		t.Fatal(err)
	}
	attrs := &Attributes{"c": {Value: HashStringToScalar(hk, "0")}}
	key, err := DeriveAttributeKeysCCA(rd, sp, attrs)
	if err != nil {
		t.Fatal(err)
	}
	_, err = DecryptCCA(ct, key)
	fmt.Println("honest decrypt:", err)
	// attacker
	rest, rm := checkCiphertextFormat(ct)
	id, rest, _ := removeLenPrefixed(rest)
	macData, _, _ := rm(rest)
	C1, envRaw, _ := rm(macData)
	env, _, _ := rm(envRaw)
	hdr := &ciphertextHeader{}
	if err := hdr.unmarshalBinary(C1); err != nil {
		t.Fatal(err)
	}
	_ = id
	n := len(hdr.p.Inputs)
	bk := n // index of the BK wire after transformBK
	fake := &ciphertextHeader{
		p:     &Policy{Inputs: []Wire{{Label: bkAttribute, Value: &([]Wire{{}}[0].Value), Positive: true}}},
		c1:    hdr.c1,
		c2:    hdr.c2[:1],
		c3:    []*matrixG1{hdr.c3[bk]},
		c3neg: []*matrixG1{nil},
	}
	fake.p.Inputs[0].Value = HashStringToScalar(hk, "x") // any: wildcard key uses the wire value y... 
	_ = fake
}
