//go:build verif

// C20 white-box sub-check: the linear secret sharing over the policy formula
// (formula.go share) must let a set of input wires reconstruct the shared
// secret if and only if that set satisfies the monotone formula. The black-box
// API cannot see a violation of the "only if" half, because the honest
// Decrypt refuses to run when Policy.Satisfaction fails; a key holder who
// skips that test is stopped by the sharing alone.
package tkn

import (
	"bytes"
	"fmt"
	"math/big"
	"testing"

	pairing "github.com/cloudflare/circl/ecc/bls12381"
	"github.com/cloudflare/circl/zz_verif/vlib"
	"golang.org/x/crypto/blake2b"
	"pgregory.net/rapid"
)

var c20Order = new(big.Int).SetBytes(pairing.Order())

func c20Big(s *pairing.Scalar) *big.Int {
	b, err := s.MarshalBinary()
	if err != nil {
		panic(err)
	}
	return new(big.Int).SetBytes(b)
}

// c20Tree is a monotone formula over distinct input wires.
type c20Tree struct {
	leaf  int // input wire number, -1 for gates
	and   bool
	l, r  *c20Tree
	shape string
}

func c20Gen(t *rapid.T, leaves int, next *int) *c20Tree {
	if leaves == 1 {
		n := &c20Tree{leaf: *next, shape: "x"}
		*next++
		return n
	}
	l1 := rapid.IntRange(1, leaves-1).Draw(t, "split")
	n := &c20Tree{leaf: -1, and: rapid.Bool().Draw(t, "isAnd")}
	// children are numbered in a drawn order so that In0/In1 roles vary
	if rapid.Bool().Draw(t, "rightFirst") {
		n.r = c20Gen(t, leaves-l1, next)
		n.l = c20Gen(t, l1, next)
	} else {
		n.l = c20Gen(t, l1, next)
		n.r = c20Gen(t, leaves-l1, next)
	}
	op := "|"
	if n.and {
		op = "&"
	}
	n.shape = "(" + n.l.shape + op + n.r.shape + ")"
	return n
}

func (n *c20Tree) text() string {
	if n.leaf >= 0 {
		return fmt.Sprintf("w%d", n.leaf)
	}
	op := " or "
	if n.and {
		op = " and "
	}
	return "(" + n.l.text() + op + n.r.text() + ")"
}

func (n *c20Tree) eval(set uint) bool {
	if n.leaf >= 0 {
		return set&(1<<uint(n.leaf)) != 0
	}
	if n.and {
		return n.l.eval(set) && n.r.eval(set)
	}
	return n.l.eval(set) || n.r.eval(set)
}

// gates emits the tree in the package's wire convention: inputs 0..n,
// gate outputs n+1..2n, the root is wire 2n.
func (n *c20Tree) gates(ngates int) []Gate {
	var out []Gate
	nextOut := ngates + 1
	var walk func(x *c20Tree) int
	walk = func(x *c20Tree) int {
		if x.leaf >= 0 {
			return x.leaf
		}
		a := walk(x.l)
		b := walk(x.r)
		g := Gate{Class: Orgate, In0: a, In1: b, Out: nextOut}
		if x.and {
			g.Class = Andgate
		}
		nextOut++
		out = append(out, g)
		return g.Out
	}
	walk(n)
	return out
}

// c20Solvable decides whether some fixed coefficients c satisfy
// sum_i c_i * rows[j][i] = target[j] (mod order) for every run j.
func c20Solvable(rows [][]*big.Int, target []*big.Int) bool {
	m := len(rows)
	if m == 0 {
		return false
	}
	n := len(rows[0])
	a := make([][]*big.Int, m)
	for j := range rows {
		a[j] = make([]*big.Int, n+1)
		for i := 0; i < n; i++ {
			a[j][i] = new(big.Int).Set(rows[j][i])
		}
		a[j][n] = new(big.Int).Set(target[j])
	}
	r := 0
	for c := 0; c < n && r < m; c++ {
		p := -1
		for j := r; j < m; j++ {
			if a[j][c].Sign() != 0 {
				p = j
				break
			}
		}
		if p < 0 {
			continue
		}
		a[r], a[p] = a[p], a[r]
		inv := new(big.Int).ModInverse(a[r][c], c20Order)
		for k := c; k <= n; k++ {
			a[r][k].Mul(a[r][k], inv).Mod(a[r][k], c20Order)
		}
		for j := 0; j < m; j++ {
			if j == r || a[j][c].Sign() == 0 {
				continue
			}
			f := new(big.Int).Set(a[j][c])
			for k := c; k <= n; k++ {
				t := new(big.Int).Mul(f, a[r][k])
				a[j][k].Sub(a[j][k], t).Mod(a[j][k], c20Order)
			}
		}
		r++
	}
	for j := r; j < m; j++ {
		if a[j][n].Sign() != 0 {
			return false // 0 = non-zero: inconsistent
		}
	}
	return true
}

func c20CheckFormula(t vlib.TB, sub string, f Formula, ninputs int, eval func(uint) bool, text string, seed uint64) bool {
	runs := ninputs + 3
	shares := make([][]*big.Int, runs) // [run][wire], entry 0 of every share
	secrets := make([]*big.Int, runs)
	raw := make([][]*matrixZp, runs)
	ks := make([]*matrixZp, runs)
	for j := 0; j < runs; j++ {
		rd := vlib.NewReader(seed + uint64(j)*0x9e3779b97f4a7c15)
		k, err := randomMatrixZp(rd, 2, 1)
		if err != nil {
			t.Fatalf("randomMatrixZp: %v", err)
		}
		ff := Formula{Gates: append([]Gate{}, f.Gates...)}
		sh, err := ff.share(rd, k)
		if err != nil {
			vlib.Report(t, "C20/share/error", fmt.Sprintf("share fails on well-formed formula %s: %v", text, err))
			return false
		}
		if len(sh) != ninputs {
			vlib.Report(t, "C20/share/count", fmt.Sprintf("share returns %d shares for %d input wires of %s", len(sh), ninputs, text))
			return false
		}
		shares[j] = make([]*big.Int, ninputs)
		for i := range sh {
			shares[j][i] = c20Big(&sh[i].entries[0])
		}
		secrets[j] = c20Big(&k.entries[0])
		raw[j], ks[j] = sh, k
	}
	for set := uint(0); set < 1<<uint(ninputs); set++ {
		vlib.Eval(sub)
		var idx []int
		for i := 0; i < ninputs; i++ {
			if set&(1<<uint(i)) != 0 {
				idx = append(idx, i)
			}
		}
		rows := make([][]*big.Int, runs)
		for j := range rows {
			rows[j] = make([]*big.Int, len(idx))
			for c, i := range idx {
				rows[j][c] = shares[j][i]
			}
		}
		authorised := eval(set)
		can := len(idx) > 0 && c20Solvable(rows, secrets)
		wires := fmt.Sprint(idx)
		if can && !authorised {
			vlib.Report(t, "C20/share/unauthorised-set-reconstructs", fmt.Sprintf("formula %s (gates %v): the shares of input wires %s alone determine the shared secret (a fixed linear combination reproduces it in %d independent sharings) although that set does not satisfy the formula", text, f.Gates, wires, runs))
			return false
		}
		if !can && authorised {
			vlib.Report(t, "C20/share/authorised-set-fails", fmt.Sprintf("formula %s (gates %v): the shares of input wires %s do not determine the secret although the set satisfies the formula", text, f.Gates, wires))
			return false
		}
		if authorised {
			// what decapsulate relies on: the sub-set picked by satisfaction() sums to the secret
			var av []match
			for _, i := range idx {
				av = append(av, match{wire: i})
			}
			ff := Formula{Gates: append([]Gate{}, f.Gates...)}
			pick, err := ff.satisfaction(av)
			if err != nil {
				vlib.Report(t, "C20/share/satisfaction-rejects-satisfying", fmt.Sprintf("formula %s: satisfaction(%s) = %v", text, wires, err))
				return false
			}
			for j := 0; j < runs; j++ {
				acc := newMatrixZp(2, 1)
				for _, m := range pick {
					acc.add(acc, raw[j][m.wire])
				}
				if !acc.Equal(ks[j]) {
					vlib.Report(t, "C20/share/picked-shares-do-not-sum-to-secret", fmt.Sprintf("formula %s: wires picked by satisfaction(%s) = %v do not add up to the secret", text, wires, pick))
					return false
				}
			}
			vlib.Class(sub, "set=authorised")
		} else {
			vlib.Class(sub, "set=unauthorised")
			if len(idx) > 0 {
				vlib.NonTrivial(sub, "nontrivial:non-empty-unauthorised-set", []byte(text), []byte{byte(set)})
			}
		}
	}
	return true
}

// TestC20Shares: LSSS soundness and completeness on generated formulas, with
// and without the Boneh–Katz gate that EncryptCCA adds (insertAnd).
func TestC20Shares(t *testing.T) {
	defer vlib.Done()
	const sub = "whitebox/share"
	// self-test of the linear-algebra helper
	{
		one, two, three := big.NewInt(1), big.NewInt(2), big.NewInt(3)
		if !c20Solvable([][]*big.Int{{one, two}, {two, one}, {three, three}}, []*big.Int{three, three, big.NewInt(6)}) ||
			c20Solvable([][]*big.Int{{one, two}, {two, big.NewInt(4)}, {three, three}}, []*big.Int{three, big.NewInt(7), big.NewInt(6)}) ||
			c20Solvable([][]*big.Int{{big.NewInt(0)}, {big.NewInt(0)}}, []*big.Int{one, two}) {
			t.Fatalf("SELFTEST-FAIL c20Solvable")
		}
		vlib.Selftest("C20 white-box: Gaussian elimination mod r", "ok")
	}
	vlib.Check(t, vlib.N(150, 800), func(t *rapid.T) {
		leaves := rapid.SampledFrom([]int{1, 2, 2, 3, 3, 4, 4, 5, 6}).Draw(t, "leaves")
		next := 0
		tree := c20Gen(t, leaves, &next)
		f := Formula{Gates: tree.gates(leaves - 1)}
		seed := rapid.Uint64().Draw(t, "seed")
		vlib.Class(sub, fmt.Sprintf("leaves=%d", leaves))
		if err := (&Formula{Gates: append([]Gate{}, f.Gates...)}).wellformed(); err != nil {
			t.Fatalf("SELFTEST-FAIL the generator's formula (a binary tree of and/or gates, well-formed by construction) is refused by circl's Formula.wellformed: %v (%v); either the generator or wellformed is wrong, the share check cannot proceed", err, f.Gates)
		}
		if !c20CheckFormula(t, sub, f, leaves, tree.eval, tree.text(), seed) {
			return
		}
		// the formula EncryptCCA really shares over: (formula) and bk
		g := f.insertAnd()
		bk := uint(leaves)
		evalBK := func(set uint) bool { return set&(1<<bk) != 0 && tree.eval(set&^(1<<bk)) }
		if !c20CheckFormula(t, sub+"-with-bk-gate", g, leaves+1, evalBK, "("+tree.text()+fmt.Sprintf(" and w%d[bk])", leaves), seed^0x5555) {
			return
		}
	})
}

// TestC20UnauthorisedKey is the end-to-end form: a key whose attributes do
// not satisfy the policy runs the library's own decapsulation on a header cut
// down to wires it does match. The result must not open the envelope.
func TestC20UnauthorisedKey(t *testing.T) {
	defer vlib.Done()
	const sub = "whitebox/unauthorised-key"
	hk := []byte("attribute value hashing")
	rdSetup := vlib.NewReader(uint64(vlib.Seed)*1315423911 + uint64(vlib.Shard))
	pp, sp, err := GenerateParams(rdSetup)
	if err != nil {
		t.Fatalf("GenerateParams: %v", err)
	}
	wire := func(l, v string, pos bool) Wire {
		return Wire{Label: l, RawValue: v, Value: HashStringToScalar(hk, v), Positive: pos}
	}
	type tc struct {
		name  string
		pol   *Policy
		attrs Attributes
		keep  []int // policy wires the attacker keeps besides the BK wire (each must match its key)
	}
	at := func(m map[string]string) Attributes {
		a := Attributes{}
		for k, v := range m {
			a[k] = Attribute{Value: HashStringToScalar(hk, v)}
		}
		return a
	}
	cases := []tc{
		{"a:1 and b:2 / key {c:0} / BK wire only", &Policy{Inputs: []Wire{wire("a", "1", true), wire("b", "2", true)}, F: Formula{Gates: []Gate{{Andgate, 0, 1, 2}}}}, at(map[string]string{"c": "0"}), nil},
		{"a:1 / key {} / BK wire only", &Policy{Inputs: []Wire{wire("a", "1", true)}}, at(map[string]string{}), nil},
		{"a:1 and b:2 / key {a:1} / wires a + BK", &Policy{Inputs: []Wire{wire("a", "1", true), wire("b", "2", true)}, F: Formula{Gates: []Gate{{Andgate, 0, 1, 2}}}}, at(map[string]string{"a": "1"}), []int{0}},
		{"a:1 and b:2 / key {b:2} / wires b + BK", &Policy{Inputs: []Wire{wire("a", "1", true), wire("b", "2", true)}, F: Formula{Gates: []Gate{{Andgate, 0, 1, 2}}}}, at(map[string]string{"b": "2"}), []int{1}},
		{"(a:1 or c:0) and b:2 / key {c:0} / wires c + BK", &Policy{Inputs: []Wire{wire("a", "1", true), wire("c", "0", true), wire("b", "2", true)}, F: Formula{Gates: []Gate{{Orgate, 0, 1, 3}, {Andgate, 3, 2, 4}}}}, at(map[string]string{"c": "0"}), []int{1}},
	}
	for ci, c := range cases {
		vlib.Eval(sub)
		msg := []byte(fmt.Sprintf("C20 white-box message %d", ci))
		rd := vlib.NewReader(uint64(vlib.Seed)*977 + uint64(ci))
		ct, err := EncryptCCA(rd, pp, c.pol, msg)
		if err != nil {
			t.Fatalf("EncryptCCA: %v", err)
		}
		attrs := c.attrs
		key, err := DeriveAttributeKeysCCA(rd, sp, &attrs)
		if err != nil {
			t.Fatalf("DeriveAttributeKeysCCA: %v", err)
		}
		if pt, err := DecryptCCA(ct, key); err == nil {
			// the attributes of every case do not satisfy its policy (fixed table above): decryption with such a
			// key is the violation C20 is about, not a harness error
			vlib.ReportDirect(t, "C20/whitebox/DecryptCCA/accepts-unsatisfying", fmt.Sprintf("case %q: the attributes do not satisfy the policy, yet DecryptCCA returns no error (plaintext %q, message %q)", c.name, pt, msg), map[string]interface{}{"case": c.name})
			if t.Failed() {
				return
			}
			continue
		}
		rest, rm := checkCiphertextFormat(ct)
		id, rest, e1 := removeLenPrefixed(rest)
		macData, _, e2 := rm(rest)
		if e1 != nil || e2 != nil {
			t.Fatalf("cannot parse own ciphertext")
		}
		C1, envRaw, e3 := rm(macData)
		env, _, e4 := rm(envRaw)
		hdr := &ciphertextHeader{}
		if e3 != nil || e4 != nil || hdr.unmarshalBinary(C1) != nil {
			t.Fatalf("cannot parse own ciphertext header")
		}
		numid := &pairing.Scalar{}
		numid.SetBytes(id)
		full := hdr.p.transformBK(numid)
		pi := full.pi()
		bk := len(hdr.p.Inputs)
		// reduced header: kept wires + BK wire under one flat formula (all needed)
		keep := append(append([]int{}, c.keep...), bk)
		red := &ciphertextHeader{p: &Policy{}, c1: hdr.c1}
		maxd := 0
		for _, w := range keep {
			red.p.Inputs = append(red.p.Inputs, full.Inputs[w])
			red.c3 = append(red.c3, hdr.c3[w])
			red.c3neg = append(red.c3neg, hdr.c3neg[w])
			if pi[w] > maxd {
				maxd = pi[w]
			}
		}
		// labels in the reduced policy are distinct in these cases, so every wire uses c2[pi] of the full policy;
		// the cases are chosen such that pi = 0 for every kept wire
		if maxd != 0 {
			t.Fatalf("SELFTEST-FAIL case %q: circl's Policy.pi() (after transformBK) assigns c2 index %d to a kept wire; the fixed cases of the harness assume index 0 for distinct labels (pi changed, outside C20, or the case table is stale)", c.name, maxd)
		}
		red.c2 = hdr.c2[:1]
		n := len(keep) - 1
		switch n {
		case 0:
		case 1:
			red.p.F = Formula{Gates: []Gate{{Andgate, 0, 1, 2}}}
		default:
			t.Fatalf("SELFTEST-FAIL unsupported case")
		}
		var pt []byte
		pn, _ := vlib.Catch(func() {
			encPoint, err := decapsulate(red, key)
			if err != nil {
				return
			}
			encKey, err := encPoint.MarshalBinary()
			if err != nil {
				return
			}
			h := blake2b.Sum256(encKey)
			dec, err := blakeDecrypt(h[:], env)
			if err != nil || len(dec) < macKeySeedSize {
				return
			}
			pt = dec[macKeySeedSize:]
		})
		if pn != nil {
			vlib.Class(sub, "decapsulation-panics")
			continue
		}
		if bytes.Equal(pt, msg) {
			vlib.ReportDirect(t, "C20/share/unauthorised-key-recovers-message", fmt.Sprintf("case %q: a key that does not satisfy the policy recovers the plaintext %q by running decapsulate on the header restricted to the wires it matches (honest DecryptCCA refuses only because of the Satisfaction pre-check)", c.name, pt), map[string]interface{}{"case": c.name})
			if t.Failed() {
				return
			}
			continue
		}
		vlib.NonTrivial(sub, "unauthorised-subset-yields-garbage", []byte(c.name))
	}
}
