//go:build verif && amd64 && !purego

// C12 white-box: the CSIDH-512 field (Montgomery form, R = 2^512) on generic
// Go, and on the assembly with and without BMI2/ADX, against math/big.
package csidh

import (
	"fmt"
	"math/big"
	"testing"

	"github.com/cloudflare/circl/zz_verif/c12/kit"
	"github.com/cloudflare/circl/zz_verif/vlib"
	"golang.org/x/sys/cpu"
	"pgregory.net/rapid"
)

func c12From(v *big.Int) (e fp) {
	b := vlib.LE(v, 64)
	for i := range e {
		for j := 7; j >= 0; j-- {
			e[i] = e[i]<<8 | uint64(b[8*i+j])
		}
	}
	return
}

func c12To(e *fp) *big.Int {
	v := new(big.Int)
	for i := numWords - 1; i >= 0; i-- {
		v.Lsh(v, 64).Or(v, new(big.Int).SetUint64(e[i]))
	}
	return v
}

func TestVerifC12Csidh(t *testing.T) {
	defer vlib.Done()
	s1, s2 := hasBMI2, hasADXandBMI2
	defer func() { hasBMI2, hasADXandBMI2 = s1, s2 }()
	// p = 4·∏ℓ − 1 from the documented list of primes
	prime := big.NewInt(4)
	for _, l := range primes {
		prime.Mul(prime, new(big.Int).SetUint64(l))
	}
	prime.Sub(prime, big.NewInt(1))
	if c12To(&p).Cmp(prime) != 0 || !prime.ProbablyPrime(16) {
		vlib.ReportDirect(t, "C12/csidh.fp/p/const/wrong-constant", "p is not 4·∏ℓ−1", nil)
		return
	}
	R := kit.Pow2(512)
	rinv := new(big.Int).ModInverse(R, prime)
	if c12To(&one).Cmp(kit.Mod(R, prime)) != 0 {
		vlib.ReportDirect(t, "C12/csidh.fp/one/const/wrong-constant", "one is not R mod p", nil)
	}
	f := &kit.F{Name: "csidh.fp", P: prime, Bits: 512, C: 1, Reduced: true}
	fany := &kit.F{Name: "csidh.fp", P: prime, Bits: 512, C: 1}
	type be struct {
		name      string
		bmi2, adx bool
		mulRdc    func(r, x, y *fp)
		mul512    func(r, m1 *fp, m2 uint64)
		cswap     func(x, y *fp, c uint8)
	}
	bes := []be{
		{"generic", false, false, mulRdcGeneric, mul512Generic, cswap512Generic},
		{"asm-legacy", false, false, mulRdc, mul512, cswap512},
	}
	if cpu.X86.HasBMI2 && cpu.X86.HasADX {
		bes = append(bes, be{"asm-bmi2adx", true, true, mulRdc, mul512, cswap512})
	} else {
		vlib.Note("csidh: CPU lacks BMI2/ADX, that back-end is not evaluated")
	}
	ops := []string{"addRdc", "subRdc", "mulRdc", "mulRdc", "mulRdc", "mul512", "mul576", "cswap512", "sub512", "modExp512", "modExp64", "isNonQuadRes", "isZero", "equal", "isLess"}
	vlib.Check(t, vlib.N(8000, 60000), func(t *rapid.T) {
		op := rapid.SampledFrom(ops).Draw(t, "op")
		xv, xc := f.Operand(t, "x")
		yv, yc := f.Operand(t, "y")
		jv, _ := f.Operand(t, "junk")
		alias := kit.AliasNone
		switch op {
		case "addRdc", "subRdc", "mulRdc":
			alias = kit.DrawAlias3(t)
		case "mul512":
			alias = kit.DrawAlias2(t)
			xv, xc = fany.Operand(t, "xu")
		case "mul576", "sub512", "isLess":
			xv, xc = fany.Operand(t, "xu")
			yv, yc = fany.Operand(t, "yu")
		case "equal":
			yv, yc = f.DrawSecond(t, xv, xc, "y2")
		case "modExp512":
			yv, yc = fany.Operand(t, "e") // exponent: any 512-bit integer
		}
		if alias == kit.AliasXY || alias == kit.AliasAll {
			yv, yc = xv, xc
		}
		// a quarter of the arithmetic cases: operands solved so that the RESULT is a drawn edge word
		if top := map[string]string{"addRdc": "Add", "subRdc": "Sub", "mulRdc": "Mul"}[op]; top != "" &&
			(alias == kit.AliasNone || alias == kit.AliasZX || alias == kit.AliasZY) && rapid.IntRange(0, 3).Draw(t, "targeted") == 0 {
			if tx, ty, tc, ok := f.Targeted(t, top, R, "tg"); ok {
				xv, yv, xc, yc = tx, ty, tc, tc
			}
		}
		w64 := vlib.Limbs(t, 1, 1, "w64").Uint64()
		sel := uint8(rapid.IntRange(0, 1).Draw(t, "sel"))
		x0, y0, junk := c12From(xv), c12From(yv), c12From(jv)
		drawn := alias
		for _, b := range bes {
			for _, alias := range kit.Patterns(drawn) {
				hasBMI2, hasADXandBMI2 = b.bmi2, b.adx
				c := &kit.Case{T: t, Type: "csidh.fp", Op: op, Backend: b.name, Alias: alias,
					Vals: []*big.Int{xv, yv}, Classes: []string{xc, yc}}
				reduced := func(what string, got *fp, want *big.Int) bool {
					return c.Expect(what, c12To(got), kit.Mod(want, prime))
				}
				switch op {
				case "addRdc", "subRdc", "mulRdc":
					fn := map[string]func(r, x, y *fp){"addRdc": addRdc, "subRdc": subRdc, "mulRdc": b.mulRdc}[op]
					z, xo, yo := kit.Bin(alias, fn, x0, y0, junk)
					w := new(big.Int)
					switch op {
					case "addRdc":
						w.Add(xv, yv)
					case "subRdc":
						w.Sub(xv, yv)
					case "mulRdc":
						w.Mul(xv, yv).Mul(w, rinv)
					}
					if !reduced("result", &z, w) {
						return
					}
					if (alias == kit.AliasNone || alias == kit.AliasZY || alias == kit.AliasXY) && xo != x0 ||
						(alias == kit.AliasNone || alias == kit.AliasZX) && yo != y0 {
						c.Fail("operand-clobbered", fmt.Sprintf("x=%x y=%x", xo, yo))
						return
					}
				case "mul512":
					c.Vals, c.Classes = []*big.Int{xv, new(big.Int).SetUint64(w64)}, []string{xc, "word"}
					z, _ := kit.Un(alias, func(r, m *fp) { b.mul512(r, m, w64) }, x0, junk)
					w := new(big.Int).Mul(xv, new(big.Int).SetUint64(w64))
					if !c.Expect("low-512-bits", c12To(&z), w.Mod(w, R)) {
						return
					}
				case "mul576":
					c.Vals, c.Classes = []*big.Int{xv, new(big.Int).SetUint64(w64)}, []string{xc, "word"}
					var r9 [9]uint64
					mul576Generic(&r9, &x0, w64)
					got := new(big.Int)
					for i := 8; i >= 0; i-- {
						got.Lsh(got, 64).Or(got, new(big.Int).SetUint64(r9[i]))
					}
					if !c.Expect("product", got, new(big.Int).Mul(xv, new(big.Int).SetUint64(w64))) {
						return
					}
				case "cswap512":
					c.Vals, c.Classes = append(c.Vals, big.NewInt(int64(sel))), append(c.Classes, "sel")
					a, bb := x0, y0
					b.cswap(&a, &bb, sel)
					wa, wb := x0, y0
					if sel == 1 {
						wa, wb = y0, x0
					}
					if a != wa || bb != wb {
						c.Fail("wrong-selection", fmt.Sprintf("after: %x %x", a, bb))
						return
					}
				case "sub512":
					var r fp
					borrow := sub512(&r, &x0, &y0)
					w := new(big.Int).Sub(xv, yv)
					wantB := uint64(0)
					if w.Sign() < 0 {
						wantB = 1
					}
					if borrow != wantB || c12To(&r).Cmp(w.Mod(w, R)) != 0 {
						c.Fail("wrong-difference", fmt.Sprintf("r=%x borrow=%d", c12To(&r), borrow))
						return
					}
				case "modExp512", "modExp64":
					// b in the Montgomery domain: r = (b/R)^e · R
					var r fp
					e := yv
					if op == "modExp64" {
						e = new(big.Int).SetUint64(w64)
						c.Vals, c.Classes = []*big.Int{xv, e}, []string{xc, "word"}
						modExpRdc64(&r, &x0, w64)
					} else {
						modExpRdc512(&r, &x0, &y0)
					}
					base := new(big.Int).Mul(xv, rinv)
					w := new(big.Int).Exp(base.Mod(base, prime), e, prime)
					if !reduced("power", &r, w.Mul(w, R)) {
						return
					}
				case "isNonQuadRes":
					c.Vals, c.Classes = c.Vals[:1], c.Classes[:1]
					a := x0
					val := kit.Mod(new(big.Int).Mul(xv, rinv), prime)
					// documented: 0 for a quadratic residue, 1 for a non-residue (0 itself is neither: x^((p-1)/2)=0≠1 → 1)
					want := 0
					if big.Jacobi(val, prime) != 1 {
						want = 1
					}
					if val.Sign() == 0 {
						vlib.Class("csidh.fp", "isNonQuadRes(0) (not asserted)")
					} else if got := a.isNonQuadRes(); got != want {
						c.Fail("wrong-predicate", fmt.Sprintf("isNonQuadRes=%d Legendre=%d", got, big.Jacobi(val, prime)))
						return
					}
				case "isZero":
					c.Vals, c.Classes = c.Vals[:1], c.Classes[:1]
					a := x0
					vlib.Class("csidh.fp", fmt.Sprintf("isZero=%v", xv.Sign() == 0))
					if a.isZero() != (xv.Sign() == 0) {
						c.Fail("wrong-predicate", "isZero")
						return
					}
				case "equal":
					a, bb := x0, y0
					vlib.Class("csidh.fp", fmt.Sprintf("equal=%v", xv.Cmp(yv) == 0))
					if a.equal(&bb) != (xv.Cmp(yv) == 0) {
						c.Fail("wrong-predicate", "equal")
						return
					}
				case "isLess":
					if isLess(&x0, &y0) != (xv.Cmp(yv) < 0) {
						c.Fail("wrong-predicate", "isLess")
						return
					}
				}
				c.Done()
			}
			if op != "mulRdc" && op != "mul512" && op != "cswap512" && op != "modExp512" && op != "modExp64" && op != "isNonQuadRes" {
				break // pure Go, independent of the back-end
			}
		}
	})
}

// Deterministic sweep of isZero / equal over every single-bit and one-limb difference.
func TestVerifC12CsidhPredicates(t *testing.T) {
	defer vlib.Done()
	f := &kit.F{Name: "csidh.fp", P: c12To(&p), Bits: 512, C: 1, Reduced: true}
	kit.SweepPredicates(t, &kit.Preds[fp]{F: f, Type: "csidh.fp", Backend: "go", From: c12From,
		IsZero:  func(x *fp) bool { return x.isZero() },
		IsEqual: func(x, y *fp) bool { return x.equal(y) }})
	for k := 0; k < 64; k++ {
		if ctIsNonZero64(uint64(1)<<uint(k)) != 1 {
			vlib.ReportDirect(t, "C12/csidh.fp/ctIsNonZero64/go/wrong-predicate-sweep", fmt.Sprintf("ctIsNonZero64(2^%d) = 0", k), nil)
			return
		}
	}
	if ctIsNonZero64(0) != 0 {
		vlib.ReportDirect(t, "C12/csidh.fp/ctIsNonZero64/go/wrong-predicate-sweep", "ctIsNonZero64(0) = 1", nil)
	}
}
