#!/usr/bin/env python3
# generates the two C06 white-box overlays from template.go.txt
import os
d = os.path.dirname(os.path.abspath(__file__))
t = open(os.path.join(d, "template.go.txt")).read()
for pkg, fp, curve, a24, bits, mask, limbc in [
    ("x25519", "fp25519", "C25519", "121666", "255", "validPk[31] &= (1 << (255 % 8)) - 1", "19"),
    ("x448", "fp448", "C448", "39082", "448", "", "1"),
]:
    s = t
    for k, v in {"@PKG@": pkg, "@FP@": fp, "@CURVE@": curve, "@A24@": a24, "@BITS@": bits, "@MASK@": mask, "@LIMBC@": limbc}.items():
        s = s.replace(k, v)
    s = "\n".join(l.rstrip() for l in s.split("\n"))
    open("/verif/harness/dh/%s/zz_verif_c06_test.go" % pkg, "w").write(s)
