#!/usr/bin/env python3
# generates the two C06 white-box overlays from template.go.txt
import os
d = os.path.dirname(os.path.abspath(__file__))
t = open(os.path.join(d, "template.go.txt")).read()
for pkg, fp, curve, a24, bits, mask, limbc, fold, lhex in [
    ("x25519", "fp25519", "C25519", "121666", "255", "validPk[31] &= (1 << (255 % 8)) - 1", "19", "38", "1000000000000000000000000000000014def9dea2f79cd65812631a5cf5d3ed"),
    ("x448", "fp448", "C448", "39082", "448", "", "1", "0", "3fffffffffffffffffffffffffffffffffffffffffffffffffffffff7cca23e9c44edb49aed63690216cc2728dc58f552378c292ab5844f3"),
]:
    s = t
    for k, v in {"@PKG@": pkg, "@FP@": fp, "@CURVE@": curve, "@A24@": a24, "@BITS@": bits, "@MASK@": mask, "@LIMBC@": limbc, "@FOLD@": fold, "@LHEX@": lhex}.items():
        s = s.replace(k, v)
    s = "\n".join(l.rstrip() for l in s.split("\n"))
    open("/verif/harness/dh/%s/zz_verif_c06_test.go" % pkg, "w").write(s)

ft = open(os.path.join(d, "fp_template.go.txt")).read()
for fp, fold, mg in [("fp25519", "38", "modpGeneric"), ("fp448", "0", "Modp")]:
    s = ft.replace("@FP@", fp).replace("@FOLD@", fold).replace("@MODPGENERIC@", mg)
    os.makedirs("/verif/harness/math/%s" % fp, exist_ok=True)
    open("/verif/harness/math/%s/zz_verif_c06_test.go" % fp, "w").write(s)
