//go:build verif && amd64 && !purego

// C06 white-box (generated from /verif/harness/dh/c06gen/template.go.txt by gen.py — edit the template).
// Every case runs on the three back-ends in-process: BMI2/ADX assembly, legacy
// assembly (by clearing the package variable hasBmi2Adx that the assembly
// consults) and the generic Go functions called directly.
package x25519

import (
	"bytes"
	"encoding/binary"
	"fmt"
	"math/big"
	"math/bits"
	"sync"
	"testing"

	fp "github.com/cloudflare/circl/math/fp25519"
	"github.com/cloudflare/circl/zz_verif/ref/mont"
	"github.com/cloudflare/circl/zz_verif/ref/prodgen"
	"github.com/cloudflare/circl/zz_verif/vlib"
	"golang.org/x/sys/cpu"
	"pgregory.net/rapid"
)

var (
	c06Curve = mont.C25519
	c06A24   = big.NewInt(121666) // (A+2)/4
	c06Mu    sync.Mutex
)

type c06Backend struct {
	name   string
	bmi2   bool // value of hasBmi2Adx while running
	native bool // use the package's own dispatch (assembly); false: generic Go functions
}

func c06Backends() []c06Backend {
	out := []c06Backend{{"generic", false, false}, {"asm-legacy", false, true}}
	if cpu.X86.HasBMI2 && cpu.X86.HasADX {
		out = append(out, c06Backend{"asm-bmi2adx", true, true})
	}
	return out
}

// c06With runs f with hasBmi2Adx forced to v.
func c06With(v bool, f func()) {
	c06Mu.Lock()
	defer c06Mu.Unlock()
	old := hasBmi2Adx
	hasBmi2Adx = v
	defer func() { hasBmi2Adx = old }()
	f()
}

// c06LadderGeneric is ladderMontgomery of curve.go with the step function
// as a parameter (the loop is 10 lines; TestVerifC06LoopCopy checks that the
// copy with the package's own step equals the real function).
func c06Ladder(k, xP *Key, step func(*[5]fp.Elt, uint)) {
	w := [5]fp.Elt{}
	w[0] = *(*fp.Elt)(xP)
	fp.SetOne(&w[1])
	w[3] = *(*fp.Elt)(xP)
	fp.SetOne(&w[4])
	move := uint(0)
	for s := 255 - 1; s >= 0; s-- {
		i := s / 8
		j := s % 8
		bit := uint((k[i] >> uint(j)) & 1)
		step(&w, move^bit)
		move = bit
	}
	toAffine((*[fp.Size]byte)(k), &w[1], &w[2])
}

// c06SharedGeneric is Shared of key.go on the generic ladder.
func c06SharedGeneric(shared, secret, public *Key) bool {
	validPk := *public
	validPk[31] &= (1 << (255 % 8)) - 1
	ok := validPk.isValidPubKey()
	c06Ladder(shared.clamp(secret), &validPk, ladderStepGeneric)
	return ok
}

var (
	c06CopyOnce sync.Once
	c06CopyOK   bool
)

func c06LoopCopyOK() bool {
	c06CopyOnce.Do(func() {
		c06CopyOK = true
		for i := 0; i < 8; i++ {
			var k, u, a, b Key
			vlib.ExpandInto(k[:], uint64(1000+i))
			vlib.ExpandInto(u[:], uint64(2000+i))
			var ck Key
			a = *ck.clamp(&k)
			b = a
			u2 := u
			ladderMontgomery(&a, &u)
			c06Ladder(&b, &u2, ladderStep)
			if a != b {
				c06CopyOK = false
			}
		}
	})
	return c06CopyOK
}

var c06L, _ = new(big.Int).SetString("1000000000000000000000000000000014def9dea2f79cd65812631a5cf5d3ed", 16) // prime order of the base point

// c06Extra: second offset for the boundary generator (2^224 for 2^448-2^224-1), nil for 2^255-19.
var c06Extra = func() *big.Int {
	if Size == 56 {
		return new(big.Int).Lsh(big.NewInt(1), 224)
	}
	return nil
}()

// c06BasePreimages: the scalars j*l +- 1 that the clamping leaves unchanged; their public key is
// the base point, a result small enough to have a second representative below 2^(8*Size).
func c06BasePreimages() []Key {
	var out []Key
	for j := int64(1); j <= 16; j++ {
		for _, sgn := range []int64{1, -1} {
			a := new(big.Int).Mul(c06L, big.NewInt(j))
			a.Add(a, big.NewInt(sgn))
			if a.BitLen() > 8*Size {
				continue
			}
			var k, ck Key
			copy(k[:], vlib.LE(a, Size))
			if *ck.clamp(&k) == k {
				out = append(out, k)
			}
		}
	}
	return out
}

func c06Scalar(t *rapid.T, label string) Key {
	var k Key
	switch rapid.IntRange(0, 6).Draw(t, label+".kind") {
	case 6:
		if pre := c06BasePreimages(); len(pre) > 0 {
			return pre[rapid.IntRange(0, len(pre)-1).Draw(t, label+".pre")]
		}
		vlib.FillRandom(t, k[:], label)
	case 0:
	case 1:
		for i := range k {
			k[i] = 0xff
		}
	case 2:
		i := rapid.IntRange(0, 8*Size-1).Draw(t, label+".bit")
		k[i/8] = 1 << (i % 8)
	default:
		vlib.FillRandom(t, k[:], label)
	}
	return k
}

func c06U(t *rapid.T, label string) (Key, string) {
	var u Key
	cls := "uniform"
	switch rapid.IntRange(0, 9).Draw(t, label+".kind") {
	case 8, 9:
		v, _ := prodgen.Boundary(t, Size/8, 19, c06Curve.P, c06Extra, label+".b")
		copy(u[:], vlib.LE(v, Size))
		cls = "limb-boundary"
	case 6, 7:
		// the first ladder step squares 2u: choose the square first, then u = sqrt/2
		x, _, _ := prodgen.Factors(t, Size/8, 38, label+".prod")
		copy(u[:], vlib.LE(new(big.Int).Rsh(x, 1), Size))
		cls = "product-structured"
	case 0:
		copy(u[:], vlib.LE(vlib.Limbs(t, Size/8, 19, label), Size))
		cls = "limb-edge"
	case 1:
		copy(u[:], vlib.LE(vlib.NearModulus(t, c06Curve.P, 8*Size, label), Size))
		cls = "near-p"
	case 2:
		v := big.NewInt(int64(rapid.IntRange(0, 3).Draw(t, label+".small")))
		if rapid.Bool().Draw(t, label+".neg") {
			v.Sub(c06Curve.P, v)
		}
		copy(u[:], vlib.LE(v, Size))
		cls = "low-order-neighbourhood"
	default:
		vlib.FillRandom(t, u[:], label)
	}
	return u, cls
}

// TestVerifC06Backends: Shared and KeyGen on every back-end against ref/mont.
func TestVerifC06Backends(t *testing.T) {
	defer vlib.Done()
	if err := mont.SelfTest(vlib.Harness+"/zz_verif/ref/mont/testdata", false); err != nil {
		fmt.Printf("SELFTEST-FAIL ref/mont: %v\n", err)
		t.Fatalf("SELFTEST-FAIL ref/mont: %v", err)
	}
	vlib.Selftest("ref/mont vs RFC 7748 vectors (white-box x25519)", "ok")
	if !c06LoopCopyOK() {
		vlib.Note("x25519: the harness copy of ladderMontgomery no longer matches curve.go; generic back-end skipped")
	}
	const sub = "whitebox/x25519.backends"
	vlib.Check(t, vlib.N(400, 4000), func(t *rapid.T) {
		k := c06Scalar(t, "k")
		u, cls := c06U(t, "u")
		var garbage Key
		vlib.FillRandom(t, garbage[:], "garbage")
		want := c06Curve.X(k[:], u[:])
		wantOK := !mont.IsZero(want)
		wantPub := c06Curve.XBase(k[:])
		vlib.Eval(sub)
		for _, be := range c06Backends() {
			var got, pub Key
			var ok bool
			// the result must not depend on the previous content of the output buffers
			copy(got[:], garbage[:])
			copy(pub[:], garbage[:])
			if be.native {
				c06With(be.bmi2, func() {
					ok = Shared(&got, &k, &u)
					KeyGen(&pub, &k)
				})
			} else {
				if !c06LoopCopyOK() {
					continue
				}
				ok = c06SharedGeneric(&got, &k, &u)
				pub = Key{}
				copy(pub[:], wantPub) // KeyGen's generic pieces are checked by TestVerifC06Primitives
			}
			vlib.Class(sub, "backend="+be.name)
			if !bytes.Equal(got[:], want) || ok != wantOK {
				if vlib.Report(t, "C06/whitebox/x25519/"+be.name+"/Shared-differs-from-RFC7748", fmt.Sprintf("k=%x u=%x got=%x flag=%v reference=%x", k, u, got, ok, want)) {
					return
				}
			}
			if !bytes.Equal(pub[:], wantPub) {
				if vlib.Report(t, "C06/whitebox/x25519/"+be.name+"/KeyGen-differs-from-RFC7748", fmt.Sprintf("k=%x got=%x reference=%x", k, pub, wantPub)) {
					return
				}
			}
		}
		if cls != "uniform" {
			vlib.NonTrivial(sub, "u="+cls, k[:], u[:])
		}
	})
}

// TestVerifC06ToAffine: the last step of both ladders, x/z written as the canonical
// little-endian string, fed (x, z) with x = v*z for results v that have a second
// representative below 2^(8*Size) (v < 2^(8*Size) - p), for v = 0, and for general v;
// x is given in either representative.
func TestVerifC06ToAffine(t *testing.T) {
	defer vlib.Done()
	const sub = "whitebox/x25519.toAffine"
	p := c06Curve.P
	width := new(big.Int).Lsh(big.NewInt(1), uint(8*Size))
	bound := new(big.Int).Sub(new(big.Int).Lsh(big.NewInt(1), 255), p) // 19 resp. 2^224+1
	vlib.Check(t, vlib.N(3000, 40000), func(t *rapid.T) {
		var v *big.Int
		cls := "tiny"
		switch rapid.IntRange(0, 4).Draw(t, "vk") {
		case 0:
			v = big.NewInt(int64(rapid.IntRange(0, 18).Draw(t, "v")))
		case 1, 2:
			b := make([]byte, (bound.BitLen()+7)/8)
			vlib.FillRandom(t, b, "vb")
			v = vlib.FromLE(b)
			v.Mod(v, bound)
			if rapid.Bool().Draw(t, "shift") {
				v.Rsh(v, uint(rapid.IntRange(0, bound.BitLen()).Draw(t, "sh")))
			}
		case 3:
			v = new(big.Int).Sub(bound, big.NewInt(int64(rapid.IntRange(1, 3).Draw(t, "d"))))
		default:
			_, v, _ = c06Elt(t, "v")
			v.Mod(v, p)
			cls = "general"
		}
		_, z, _ := c06Elt(t, "z")
		if new(big.Int).Mod(z, p).Sign() == 0 {
			z = big.NewInt(1)
		}
		x := new(big.Int).Mul(v, z)
		x.Mod(x, p)
		if xp := new(big.Int).Add(x, p); xp.Cmp(width) < 0 && rapid.Bool().Draw(t, "xrep") {
			x = xp
		}
		var ex, ez fp.Elt
		copy(ex[:], vlib.LE(x, Size))
		copy(ez[:], vlib.LE(z, Size))
		vlib.Eval(sub)
		want := vlib.LE(v, Size)
		for _, bmi := range []bool{false, true} {
			if bmi && !(cpu.X86.HasBMI2 && cpu.X86.HasADX) {
				continue
			}
			var out [fp.Size]byte
			for i := range out {
				out[i] = 0xa5
			}
			xx, zz := ex, ez
			c06With(bmi, func() { toAffine(&out, &xx, &zz) })
			if !bytes.Equal(out[:], want) {
				if vlib.Report(t, "C06/whitebox/x25519/toAffine-not-canonical", fmt.Sprintf("x=%x z=%x (x/z = %x) out=%x want=%x", x, z, v, out, want)) {
					return
				}
			}
		}
		vlib.Class(sub, "v="+cls)
		if cls == "tiny" {
			vlib.NonTrivial(sub, "", x.Bytes(), z.Bytes())
		}
	})
}

// ---------------------------------------------------------------------------
// the four primitives, limb-structured operands, against math/big

func c06Elt(t *rapid.T, label string) (fp.Elt, *big.Int, string) {
	var e fp.Elt
	v, cls := vlib.FieldOperand(t, c06Curve.P, 8*Size, 19, false, label)
	if rapid.IntRange(0, 3).Draw(t, label+".boundary") == 0 {
		v, cls = prodgen.Boundary(t, Size/8, 19, c06Curve.P, c06Extra, label+".b")
		cls = "limb-boundary/" + cls
	}
	copy(e[:], vlib.LE(v, Size))
	return e, v, cls
}

func c06Int(e *fp.Elt) *big.Int {
	v := vlib.FromLE(e[:])
	return v.Mod(v, c06Curve.P)
}

func c06ProjEq(x, z, X, Z *big.Int) bool {
	p := c06Curve.P
	m := func(a, b *big.Int) *big.Int { r := new(big.Int).Mul(a, b); return r.Mod(r, p) }
	zeroGot := x.Sign() == 0 && z.Sign() == 0
	zeroWant := X.Sign() == 0 && Z.Sign() == 0
	if zeroGot != zeroWant {
		return false
	}
	return m(x, Z).Cmp(m(X, z)) == 0
}

func c06Double(x, z *big.Int) (*big.Int, *big.Int) {
	p := c06Curve.P
	md := func(v *big.Int) *big.Int { return v.Mod(v, p) }
	A := md(new(big.Int).Add(x, z))
	B := md(new(big.Int).Sub(x, z))
	AA := md(new(big.Int).Mul(A, A))
	BB := md(new(big.Int).Mul(B, B))
	E := md(new(big.Int).Sub(AA, BB))
	X := md(new(big.Int).Mul(AA, BB))
	t := md(new(big.Int).Add(BB, new(big.Int).Mul(c06A24, E)))
	Z := md(new(big.Int).Mul(E, t))
	return X, Z
}

func TestVerifC06Primitives(t *testing.T) {
	defer vlib.Done()
	const sub = "whitebox/x25519.primitives"
	p := c06Curve.P
	md := func(v *big.Int) *big.Int { return v.Mod(v, p) }
	vlib.Check(t, vlib.N(4000, 60000), func(t *rapid.T) {
		op := rapid.SampledFrom([]string{"ladderStep", "ladderStep", "diffAdd", "double", "mulA24", "mulA24", "ladderStep", "ladderStep", "double", "diffAdd"}).Draw(t, "op")
		structured := rapid.Bool().Draw(t, "structured") && op != "mulA24"
		solvedA24 := op == "mulA24" && rapid.IntRange(0, 2).Draw(t, "solved") > 0
		b := uint(rapid.IntRange(0, 1).Draw(t, "b"))
		var w [5]fp.Elt
		var v [5]*big.Int
		edge := false
		for i := range w {
			var cls string
			w[i], v[i], cls = c06Elt(t, fmt.Sprintf("w%d", i))
			v[i] = new(big.Int).Mod(v[i], p)
			if cls != "uniform" {
				edge = true
			}
		}
		if solvedA24 {
			// operand SOLVED for the partial sums of x*a24: the limbs are limb-structured, then limb i+1 is replaced by
			// the solution of hi(l_i*a24) + lo(l_{i+1}*a24) = 2^64 + e, e in {-2..2} (a24 is even: the target is made
			// even and divided by 2), so that the carry between the columns i+1 and i+2 sits at its boundary; the chain
			// may continue through all-ones columns above.
			words := Size / 8
			limbs := make([]uint64, words)
			lv := vlib.LE(vlib.Limbs(t, words, 19, "a24limbs"), Size)
			for i := range limbs {
				limbs[i] = binary.LittleEndian.Uint64(lv[8*i:])
			}
			const a24 = uint64(121666)
			half := new(big.Int).SetUint64(a24 / 2)
			mod63 := new(big.Int).Lsh(big.NewInt(1), 63)
			inv := new(big.Int).ModInverse(half, mod63)
			for rep := rapid.IntRange(1, 2).Draw(t, "pairs"); rep > 0; rep-- {
				i := rapid.IntRange(0, words-2).Draw(t, "pair")
				hi, _ := bits.Mul64(limbs[i], a24)
				e := uint64(rapid.IntRange(-2, 2).Draw(t, "e"))
				target := (e - hi) &^ 1 // lo(l*a24) is even
				sol := new(big.Int).Mul(new(big.Int).SetUint64(target/2), inv)
				sol.Mod(sol, mod63)
				l := sol.Uint64()
				if rapid.Bool().Draw(t, "top") {
					l |= 1 << 63
				}
				limbs[i+1] = l
			}
			buf := make([]byte, Size)
			for i, l := range limbs {
				binary.LittleEndian.PutUint64(buf[8*i:], l)
			}
			w[0] = fp.Elt{}
			copy(w[0][:], buf)
			v[0] = c06Int(&w[0])
			edge = true
		}
		if structured {
			// product-structured operands: the step multiplies A = x2+z2 by D = x3-z3 and squares A, B (or C, D),
			// so x2, z2, x3, z3 are chosen such that A = x and D = y exactly (as integers, no wrap), where the
			// double-width products x*y, x^2, y^2 are the chosen ones. z2, z3 are small and non-zero: with z = 0
			// every result would have Z = 0 and projective equality would be vacuous.
			x, y, _ := prodgen.Factors(t, Size/8, 38, "prod")
			r1 := new(big.Int).SetUint64(uint64(rapid.Uint32().Draw(t, "r1")) | 1)
			r2 := new(big.Int).SetUint64(uint64(rapid.Uint32().Draw(t, "r2")) | 1)
			limit := new(big.Int).Lsh(big.NewInt(1), uint(8*Size))
			if x.BitLen() < 40 {
				x.SetBit(x, 8*Size-2, 1)
			}
			if new(big.Int).Add(y, r2).Cmp(limit) >= 0 {
				r2.SetInt64(0)
			}
			set := func(i int, val *big.Int) {
				w[i] = fp.Elt{}
				copy(w[i][:], vlib.LE(val, Size))
				v[i] = new(big.Int).Mod(val, p)
			}
			switch op {
			case "ladderStep": // [x1, x2, z2, x3, z3]: A = x2+z2 = x, D = x3-z3 = y
				set(1, new(big.Int).Sub(x, r1))
				set(2, r1)
				set(3, new(big.Int).Add(y, r2))
				set(4, r2)
			case "double": // x = w[1], z = w[2]: A = x
				set(1, new(big.Int).Sub(x, r1))
				set(2, r1)
			case "diffAdd": // [mu, x1, z1, x2, z2]: with mu = 1, (x1+z1) + (x1-z1) = 2*x1 is squared
				set(0, big.NewInt(1))
				set(1, new(big.Int).Rsh(x, 1))
				set(2, r1)
				set(3, y)
				set(4, x)
			}
			edge = true
		}
		if op == "diffAdd" && !structured && rapid.Bool().Draw(t, "tableMu") {
			s := rapid.IntRange(0, len(tableGenerator)/Size-1).Draw(t, "s")
			copy(w[0][:], tableGenerator[s*Size:(s+1)*Size])
			v[0] = c06Int(&w[0])
		}
		vlib.Eval(sub)
		in := fmt.Sprintf("op=%s b=%d w=[%x %x %x %x %x]", op, b, w[0][:], w[1][:], w[2][:], w[3][:], w[4][:])
		for _, be := range c06Backends() {
			ww := w
			var z fp.Elt
			run := func() {
				switch op {
				case "ladderStep":
					if be.native {
						ladderStep(&ww, b)
					} else {
						ladderStepGeneric(&ww, b)
					}
				case "diffAdd":
					if be.native {
						diffAdd(&ww, b)
					} else {
						diffAddGeneric(&ww, b)
					}
				case "double":
					if be.native {
						double(&ww[1], &ww[2])
					} else {
						doubleGeneric(&ww[1], &ww[2])
					}
				case "mulA24":
					if be.native {
						mulA24(&z, &ww[0])
					} else {
						mulA24Generic(&z, &ww[0])
					}
				}
			}
			if be.native {
				c06With(be.bmi2, run)
			} else {
				run()
			}
			good := true
			switch op {
			case "ladderStep":
				// w = [x1, x2, z2, x3, z3]
				x1, x2, z2, x3, z3 := v[0], v[1], v[2], v[3], v[4]
				A := md(new(big.Int).Add(x2, z2))
				B := md(new(big.Int).Sub(x2, z2))
				C := md(new(big.Int).Add(x3, z3))
				D := md(new(big.Int).Sub(x3, z3))
				DA := md(new(big.Int).Mul(D, A))
				CB := md(new(big.Int).Mul(C, B))
				s0 := md(new(big.Int).Add(DA, CB))
				s1 := md(new(big.Int).Sub(DA, CB))
				X3 := md(new(big.Int).Mul(s0, s0))
				Z3 := md(new(big.Int).Mul(x1, md(new(big.Int).Mul(s1, s1))))
				// the doubled point is (x2:z2) when b=0 and (x3:z3) when b=1
				dx, dz := x2, z2
				if b == 1 {
					dx, dz = x3, z3
				}
				X2, Z2 := c06Double(dx, dz)
				good = c06ProjEq(c06Int(&ww[1]), c06Int(&ww[2]), X2, Z2) && c06ProjEq(c06Int(&ww[3]), c06Int(&ww[4]), X3, Z3) && c06Int(&ww[0]).Cmp(x1) == 0
			case "diffAdd":
				// w = [mu, x1, z1, x2, z2]
				mu, x1, z1, x2, z2 := v[0], v[1], v[2], v[3], v[4]
				if b == 1 {
					x1, x2 = x2, x1
					z1, z2 = z2, z1
				}
				A := md(new(big.Int).Add(x1, z1))
				B := md(new(big.Int).Mul(md(new(big.Int).Sub(x1, z1)), mu))
				s0 := md(new(big.Int).Add(A, B))
				s1 := md(new(big.Int).Sub(A, B))
				X := md(new(big.Int).Mul(md(new(big.Int).Mul(s0, s0)), z2))
				Z := md(new(big.Int).Mul(md(new(big.Int).Mul(s1, s1)), x2))
				good = c06ProjEq(c06Int(&ww[1]), c06Int(&ww[2]), X, Z) && c06Int(&ww[3]).Cmp(x2) == 0 && c06Int(&ww[4]).Cmp(z2) == 0
			case "double":
				X, Z := c06Double(v[1], v[2])
				good = c06ProjEq(c06Int(&ww[1]), c06Int(&ww[2]), X, Z)
			case "mulA24":
				good = c06Int(&z).Cmp(md(new(big.Int).Mul(c06A24, v[0]))) == 0
			}
			if solvedA24 {
				vlib.Class(sub, "op="+op+"/"+be.name+"/carry-solved")
			} else if structured {
				vlib.Class(sub, "op="+op+"/"+be.name+"/product-structured")
			} else {
				vlib.Class(sub, "op="+op+"/"+be.name)
			}
			if !good {
				if vlib.Report(t, "C06/whitebox/x25519/"+be.name+"/"+op+"-wrong", fmt.Sprintf("%s out=[%x %x %x %x %x] z=%x", in, ww[0][:], ww[1][:], ww[2][:], ww[3][:], ww[4][:], z[:])) {
					return
				}
			}
		}
		if edge {
			vlib.NonTrivial(sub, "edge-operand", []byte(in))
		}
	})
}
