//go:build verif

// C05 white-box: goldilocks scalar arithmetic and the scalar multiplications
// used by Ed448, against math/big and ref/edwards.
package goldilocks

import (
	"bytes"
	"fmt"
	"math/big"
	"testing"

	fp "github.com/cloudflare/circl/math/fp448"
	"github.com/cloudflare/circl/zz_verif/ref/edwards"
	"github.com/cloudflare/circl/zz_verif/vlib"
	"pgregory.net/rapid"
)

var c05L = edwards.Ed448Curve.L

func c05Scalar(v *big.Int) *Scalar {
	var s Scalar
	copy(s[:], vlib.LE(v, ScalarSize))
	return &s
}

// c05Operand draws a 448-bit operand: limb-structured, near the order, or uniform.
func c05Operand(t *rapid.T, label string) (*big.Int, string) {
	switch rapid.IntRange(0, 3).Draw(t, label+".k") {
	case 0:
		return vlib.Limbs(t, 7, 1, label), "limb-edge"
	case 1:
		v, cls := vlib.ScalarNear(t, c05L, 448, label)
		return v, "near-order/" + cls
	case 2:
		v := vlib.NearModulus(t, c05L, 448, label)
		return v, "near-order"
	}
	b := make([]byte, 56)
	vlib.FillRandom(t, b, label)
	return vlib.FromLE(b), "uniform"
}

func c05Reduced(t *rapid.T, label string) (*big.Int, string) {
	v, cls := c05Operand(t, label)
	if v.Cmp(c05L) >= 0 {
		v = new(big.Int).Mod(v, c05L)
		cls += "+reduced"
	}
	return v, cls
}

func TestVerifC05Scalar(t *testing.T) {
	defer vlib.Done()
	const sub = "whitebox/goldilocks.Scalar"
	vlib.Check(t, vlib.N(6000, 60000), func(t *rapid.T) {
		op := rapid.SampledFrom([]string{"Add", "Sub", "Mul", "Neg", "Red", "FromBytes", "FromBytes", "IsZero"}).Draw(t, "op")
		reduced := rapid.IntRange(0, 2).Draw(t, "reducedOperands") > 0
		draw := c05Operand
		if reduced {
			draw = c05Reduced
		}
		x, cx := draw(t, "x")
		y, cy := draw(t, "y")
		vlib.Eval(sub)
		var got Scalar
		var want *big.Int
		var in string
		switch op {
		case "Add":
			got.Add(c05Scalar(x), c05Scalar(y))
			want = new(big.Int).Add(x, y)
			in = fmt.Sprintf("x=%x y=%x", x, y)
		case "Sub":
			got.Sub(c05Scalar(x), c05Scalar(y))
			want = new(big.Int).Sub(x, y)
			in = fmt.Sprintf("x=%x y=%x", x, y)
		case "Mul":
			got.Mul(c05Scalar(x), c05Scalar(y))
			want = new(big.Int).Mul(x, y)
			in = fmt.Sprintf("x=%x y=%x", x, y)
		case "Neg":
			got = *c05Scalar(x)
			got.Neg()
			want = new(big.Int).Neg(x)
			in = fmt.Sprintf("x=%x", x)
		case "Red":
			got = *c05Scalar(x)
			got.Red()
			want = new(big.Int).Set(x)
			in = fmt.Sprintf("x=%x", x)
		case "IsZero":
			s := c05Scalar(x)
			z := s.IsZero()
			want = new(big.Int).Mod(x, c05L)
			if z != (want.Sign() == 0) {
				vlib.Report(t, "C05/whitebox/goldilocks.Scalar.IsZero/wrong", fmt.Sprintf("x=%x IsZero=%v", x, z))
			}
			return
		case "FromBytes":
			// the lengths Ed448 uses (56: clamped secret, 57: S and secret, 114: hashes) and others
			n := rapid.SampledFrom([]int{0, 1, 8, 55, 56, 57, 57, 64, 112, 113, 114, 114, 120}).Draw(t, "len")
			b := make([]byte, n)
			switch rapid.IntRange(0, 3).Draw(t, "fill") {
			case 0:
				for i := 0; i < n; i += 8 {
					l := vlib.Limbs(t, 1, 1, "w")
					copy(b[i:], vlib.LE(l, 8))
				}
			case 1:
				copy(b, vlib.LE(x, 56))
				if n > 56 {
					copy(b[56:], vlib.LE(y, 56))
				}
			default:
				if n > 0 {
					vlib.FillRandom(t, b, "b")
				}
			}
			if n == 57 && rapid.Bool().Draw(t, "topzero") {
				b[56] = 0
			}
			got.FromBytes(b)
			want = vlib.FromLE(b)
			in = fmt.Sprintf("len=%d bytes=%x", n, b)
			cx, cy = fmt.Sprintf("len=%d", n), ""
		}
		want.Mod(want, c05L)
		if !bytes.Equal(got[:], vlib.LE(want, 56)) {
			if !reduced && op != "FromBytes" && op != "Red" && (x.Cmp(c05L) >= 0 || y.Cmp(c05L) >= 0) {
				// Ed448 only ever passes reduced operands to Add/Sub/Mul/Neg; a wrong result for
				// unreduced operands is outside C05 (it belongs to the scalar-arithmetic property):
				// counted, shown as a sample, not reported.
				vlib.Class(sub, "observation:wrong-residue-for-unreduced-operands/"+op)
				vlib.Sample(sub, "observation:wrong-residue-for-unreduced-operands/"+op, fmt.Sprintf("%s got=%x want=%x", in, vlib.FromLE(got[:]), want))
				return
			}
			if vlib.Report(t, "C05/whitebox/goldilocks.Scalar."+op+"/wrong-residue", fmt.Sprintf("%s got=%x want=%x", in, vlib.FromLE(got[:]), want)) {
				return
			}
		}
		vlib.Class(sub, "op="+op)
		if cx != "uniform" || (cy != "uniform" && cy != "") {
			vlib.NonTrivial(sub, "edge-operand", []byte(op), []byte(in))
		}
	})
}

func c05Elt(v *big.Int) *fp.Elt {
	var e fp.Elt
	copy(e[:], vlib.LE(v, 56))
	return &e
}

func c05Point(t vlib.TB, p *edwards.Point) *Point {
	x, y := edwards.Ed448Curve.Affine(p)
	P, err := FromAffine(c05Elt(x), c05Elt(y))
	if err != nil {
		// outside C05 (Ed448 verification decodes with FromBytes, not FromAffine): the check cannot proceed
		t.Fatalf("SELFTEST-FAIL circl misbehaved outside C05: goldilocks.FromAffine(x=%x, y=%x) refused a point of the prime-order group computed by the reference: %v", x, y, err)
	}
	return P
}

func c05Enc(P *Point) []byte {
	o := make([]byte, 57)
	_ = P.ToBytes(o)
	return o
}

func TestVerifC05Mult(t *testing.T) {
	defer vlib.Done()
	const sub = "whitebox/goldilocks.mult"
	c := edwards.Ed448Curve
	B := c.Base()
	// a few fixed points of the prime-order subgroup
	var pts []*edwards.Point
	for _, k := range []int64{1, 2, 3, 5, 1 << 20} {
		pts = append(pts, c.ScalarMult(big.NewInt(k), B))
	}
	pts = append(pts, c.ScalarMult(new(big.Int).Sub(c.L, big.NewInt(1)), B), c.Identity())
	vlib.Check(t, vlib.N(250, 2500), func(t *rapid.T) {
		op := rapid.SampledFrom([]string{"ScalarBaseMult", "ScalarMult", "CombinedMult", "CombinedMult"}).Draw(t, "op")
		m, cm := c05Reduced(t, "m")
		n, cn := c05Reduced(t, "n")
		pi := rapid.IntRange(0, len(pts)-1).Draw(t, "pt")
		vlib.Eval(sub)
		var got []byte
		var want *edwards.Point
		switch op {
		case "ScalarBaseMult":
			got = c05Enc(Curve{}.ScalarBaseMult(c05Scalar(m)))
			want = c.ScalarMult(m, B)
		case "ScalarMult":
			got = c05Enc(Curve{}.ScalarMult(c05Scalar(m), c05Point(t, pts[pi])))
			want = c.ScalarMult(m, pts[pi])
		case "CombinedMult":
			got = c05Enc(Curve{}.CombinedMult(c05Scalar(m), c05Scalar(n), c05Point(t, pts[pi])))
			want = c.Add(c.ScalarMult(m, B), c.ScalarMult(n, pts[pi]))
		}
		if w := c.Encode(want); !bytes.Equal(got, w) {
			if vlib.Report(t, "C05/whitebox/goldilocks."+op+"/wrong-point", fmt.Sprintf("m=%x n=%x point#%d got=%x want=%x", m, n, pi, got, w)) {
				return
			}
		}
		vlib.Class(sub, "op="+op)
		if cm != "uniform" || cn != "uniform" {
			vlib.NonTrivial(sub, "edge-scalar", []byte(op), m.Bytes(), n.Bytes(), []byte{byte(pi)})
		}
	})
}

// TestVerifC05Decode: goldilocks.FromBytes against the strict RFC 8032 decoder.
func TestVerifC05Decode(t *testing.T) {
	defer vlib.Done()
	const sub = "whitebox/goldilocks.FromBytes"
	c := edwards.Ed448Curve
	vlib.Check(t, vlib.N(1500, 15000), func(t *rapid.T) {
		var b []byte
		kind := rapid.SampledFrom([]string{"valid", "valid+junk", "valid+overlong", "y-random", "y+p", "x=0-sign", "short", "small-order", "y-near-p", "y=2^k-1"}).Draw(t, "kind")
		k, _ := c05Reduced(t, "k")
		if k.BitLen() > 64 {
			k.Rsh(k, uint(k.BitLen()-rapid.IntRange(1, 64).Draw(t, "bits")))
		}
		valid := c.Encode(c.ScalarMult(k, c.Base()))
		switch kind {
		case "valid":
			b = valid
		case "valid+junk":
			b = valid
			b[56] |= byte(rapid.IntRange(1, 127).Draw(t, "junk"))
		case "valid+overlong":
			b = append(valid, vlib.Bytes(t, 1, 8, "extra")...)
		case "y-random":
			b = vlib.EdgeBytes(t, 57, "y")
			b[56] &= 0x80
		case "y+p":
			lo := make([]byte, 28)
			vlib.FillRandom(t, lo, "lo")
			if rapid.Bool().Draw(t, "tiny") {
				lo = []byte{byte(rapid.IntRange(0, 2).Draw(t, "tinyv"))}
			}
			b = c.EncodeRaw(new(big.Int).Add(c.P, vlib.FromLE(lo)), uint(rapid.IntRange(0, 1).Draw(t, "sign")))
		case "x=0-sign":
			y := big.NewInt(1)
			if rapid.Bool().Draw(t, "minus") {
				y = new(big.Int).Sub(c.P, big.NewInt(1))
			}
			b = c.EncodeRaw(y, 1)
		case "short":
			b = valid[:rapid.IntRange(0, 56).Draw(t, "len")]
		case "small-order":
			T := c.SmallOrderPoints()
			b = c.Encode(T[rapid.IntRange(0, len(T)-1).Draw(t, "i")])
		case "y-near-p":
			// p-1, p-2, ...: limbs of all ones; the reference says which of them are points
			y := new(big.Int).Sub(c.P, big.NewInt(int64(rapid.IntRange(1, 64).Draw(t, "d"))))
			b = c.EncodeRaw(y, uint(rapid.IntRange(0, 1).Draw(t, "sign")))
		case "y=2^k-1":
			y := new(big.Int).Lsh(big.NewInt(1), uint(rapid.IntRange(1, 448).Draw(t, "k2")))
			y.Sub(y, big.NewInt(int64(rapid.IntRange(1, 3).Draw(t, "d2"))))
			if y.BitLen() > 448 {
				y.SetInt64(1)
			}
			b = c.EncodeRaw(y, uint(rapid.IntRange(0, 1).Draw(t, "sign")))
		}
		vlib.Eval(sub)
		var P *Point
		var err error
		if p, st := vlib.Catch(func() { P, err = FromBytes(b) }); p != nil {
			vlib.Report(t, "C05/whitebox/goldilocks.FromBytes/panic/"+vlib.PanicClass(p), fmt.Sprintf("in=%x\n%s", b, st))
			return
		}
		ref, why := c.DecodeStrict(b)
		vlib.Class(sub, "kind="+kind)
		switch {
		case ref == nil && err == nil:
			key := "C05/whitebox/goldilocks.FromBytes/accepts-invalid/" + why
			if vlib.Report(t, key, fmt.Sprintf("in=%x (len %d): RFC 8032 5.2.3 decoding fails (%s), FromBytes returned a point", b, len(b), why)) {
				return
			}
		case ref != nil && err != nil:
			if vlib.Report(t, "C05/whitebox/goldilocks.FromBytes/rejects-valid", fmt.Sprintf("in=%x err=%v", b, err)) {
				return
			}
		case ref != nil:
			if got := c05Enc(P); !bytes.Equal(got, b) || !(Curve{}).IsOnCurve(P) {
				if vlib.Report(t, "C05/whitebox/goldilocks.FromBytes/wrong-point", fmt.Sprintf("in=%x re-encoded=%x", b, got)) {
					return
				}
			}
		}
		if kind != "valid" {
			vlib.NonTrivial(sub, "", b)
		}
	})
}

// c05TinyPoint draws a curve point one of whose affine coordinates has a second representative
// below the element width (y resp. x < 2^(8*size) - p: 19 for edwards25519, 2^224+1 for edwards448),
// or a general point. Encoders end in a final reduction of y and take the sign from the reduced x.
func c05TinyPoint(t *rapid.T, c *edwards.Curve, size int) (x, y *big.Int, cls string) {
	width := new(big.Int).Lsh(big.NewInt(1), uint(8*size))
	if size == 32 {
		width.Rsh(width, 1)
	}
	bound := new(big.Int).Sub(width, c.P)
	for try := 0; try < 64; try++ {
		b := make([]byte, (bound.BitLen()+7)/8)
		vlib.FillRandom(t, b, fmt.Sprintf("tv%d", try))
		v := vlib.FromLE(b)
		v.Mod(v, bound)
		switch rapid.IntRange(0, 2).Draw(t, fmt.Sprintf("tk%d", try)) {
		case 0:
			v = big.NewInt(int64(rapid.IntRange(0, 18).Draw(t, fmt.Sprintf("ts%d", try))))
		case 1:
			v.Rsh(v, uint(rapid.IntRange(0, bound.BitLen()).Draw(t, fmt.Sprintf("tr%d", try))))
		}
		sign := rapid.Bool().Draw(t, fmt.Sprintf("tg%d", try))
		if rapid.Bool().Draw(t, fmt.Sprintf("tc%d", try)) {
			// tiny y
			p, _ := c.DecodeStrict(c.EncodeRaw(v, map[bool]uint{false: 0, true: 1}[sign]))
			if p == nil {
				continue
			}
			x, y = c.Affine(p)
			return x, y, "tiny-y"
		}
		yy, ok := c.RecoverY(v, sign)
		if !ok {
			continue
		}
		return v, yy, "tiny-x"
	}
	k := big.NewInt(int64(rapid.IntRange(1, 1<<30).Draw(t, "gk")))
	x, y = c.Affine(c.ScalarMult(k, c.Base()))
	return x, y, "general"
}

// c05Proj returns X = x*Z, Y = y*Z in a drawn representative (canonical or +p where it fits).
func c05Proj(t *rapid.T, c *edwards.Curve, size int, x, y *big.Int) (X, Y, Z *big.Int) {
	width := new(big.Int).Lsh(big.NewInt(1), uint(8*size))
	Z, _ = vlib.FieldOperand(t, c.P, 8*size, 1, false, "Z")
	if new(big.Int).Mod(Z, c.P).Sign() == 0 || rapid.IntRange(0, 3).Draw(t, "z1") == 0 {
		Z = big.NewInt(1)
	}
	rep := func(v *big.Int, l string) *big.Int {
		r := new(big.Int).Mul(v, Z)
		r.Mod(r, c.P)
		if rp := new(big.Int).Add(r, c.P); rp.Cmp(width) < 0 && rapid.Bool().Draw(t, l) {
			return rp
		}
		return r
	}
	return rep(x, "xrep"), rep(y, "yrep"), Z
}

// TestVerifC05Encode: Point.ToBytes / MarshalBinary on projective inputs whose affine coordinates
// have two representatives below 2^448 (and general points), against the reference encoder.
func TestVerifC05Encode(t *testing.T) {
	defer vlib.Done()
	const sub = "whitebox/goldilocks.ToBytes"
	c := edwards.Ed448Curve
	vlib.Check(t, vlib.N(1500, 15000), func(t *rapid.T) {
		x, y, cls := c05TinyPoint(t, c, 56)
		X, Y, Z := c05Proj(t, c, 56, x, y)
		P := &Point{x: *c05Elt(X), y: *c05Elt(Y), z: *c05Elt(Z)}
		P.ta, P.tb = P.x, P.y
		vlib.Eval(sub)
		got := make([]byte, 57)
		for i := range got {
			got[i] = 0xa5
		}
		err := P.ToBytes(got)
		want := c.Encode(c.FromAffine(x, y))
		if err != nil || !bytes.Equal(got, want) {
			if vlib.Report(t, "C05/whitebox/goldilocks.ToBytes/wrong-encoding", fmt.Sprintf("x=%x y=%x (%s) X=%x Y=%x Z=%x got=%x want=%x err=%v", x, y, cls, X, Y, Z, got, want, err)) {
				return
			}
		}
		vlib.Class(sub, "point="+cls)
		if cls != "general" {
			vlib.NonTrivial(sub, "", X.Bytes(), Y.Bytes(), Z.Bytes())
		}
	})
}
