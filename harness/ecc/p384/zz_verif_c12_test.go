//go:build verif && amd64 && !purego

// C12 white-box: the P-384 base field (Montgomery form, R = 2^384) on the
// legacy and the BMI2 multiplication paths against math/big.
package p384

import (
	"fmt"
	"math/big"
	"testing"

	"github.com/cloudflare/circl/zz_verif/c12/kit"
	"github.com/cloudflare/circl/zz_verif/vlib"
	"golang.org/x/sys/cpu"
	"pgregory.net/rapid"
)

func c12From(v *big.Int) (e fp384) { copy(e[:], vlib.LE(v, sizeFp)); return }
func c12To(e *fp384) *big.Int      { return vlib.FromLE(e[:]) }

func TestVerifC12Fp384(t *testing.T) {
	defer vlib.Done()
	saved := hasBMI2
	defer func() { hasBMI2 = saved }()
	prime := kit.Hex("fffffffffffffffffffffffffffffffffffffffffffffffffffffffffffffffeffffffff0000000000000000ffffffff")
	if c12To(&p).Cmp(prime) != 0 {
		vlib.ReportDirect(t, "C12/fp384/p/const/wrong-constant", "package variable p is not the P-384 prime", nil)
		return
	}
	R := kit.Pow2(384)
	rinv := new(big.Int).ModInverse(R, prime)
	f := &kit.F{Name: "fp384", P: prime, Bits: 384, C: 1, Reduced: true}
	funred := &kit.F{Name: "fp384", P: prime, Bits: 384, C: 1}
	backends := []struct {
		name string
		flag bool
	}{{"asm-legacy", false}}
	if cpu.X86.HasBMI2 {
		backends = append(backends, struct {
			name string
			flag bool
		}{"asm-bmi2", true})
	} else {
		vlib.Note("fp384: CPU lacks BMI2, that back-end is not evaluated")
	}
	ops := []string{"Add", "Sub", "Mul", "Mul", "Sqr", "Neg", "Inv", "Cmov", "montEncode", "montDecode", "SetBigInt"}
	vlib.Check(t, vlib.N(12000, 80000), func(t *rapid.T) {
		op := rapid.SampledFrom(ops).Draw(t, "op")
		xv, xc := f.Operand(t, "x")
		yv, yc := f.Operand(t, "y")
		jv, _ := f.Operand(t, "junk")
		alias := kit.AliasNone
		switch op {
		case "Add", "Sub", "Mul":
			alias = kit.DrawAlias3(t)
		case "Sqr", "Neg", "Inv", "montDecode":
			alias = kit.DrawAlias2(t)
		case "montEncode":
			alias = kit.DrawAlias2(t)
			// IsOnCurve/Add feed SetBigInt output (any value below 2^384) to montEncode
			xv, xc = funred.Operand(t, "xu")
		case "SetBigInt":
			switch rapid.IntRange(0, 3).Draw(t, "bigkind") {
			case 0:
				xv, xc = funred.Operand(t, "xu")
			case 1:
				xv = new(big.Int).Neg(xv)
				xc = "negative"
			case 2:
				xv = new(big.Int).Add(new(big.Int).Lsh(yv, 384), xv)
				xc = "wide"
			}
		}
		if alias == kit.AliasXY || alias == kit.AliasAll {
			yv, yc = xv, xc
		}
		// a quarter of the arithmetic cases: operands solved so that the RESULT is a drawn edge word,
		// mostly in the gap [0, 2^384−p) where an unreduced alias r+p still fits the limbs
		switch op {
		case "Add", "Sub", "Mul", "Sqr", "Neg", "Inv":
			if (alias == kit.AliasNone || alias == kit.AliasZX || alias == kit.AliasZY || op == "Sqr" || op == "Neg" || op == "Inv") && rapid.IntRange(0, 3).Draw(t, "targeted") == 0 {
				if tx, ty, tc, ok := f.Targeted(t, op, R, "tg"); ok {
					xv, yv, xc, yc = tx, ty, tc, tc
				}
			}
		}
		sel := rapid.IntRange(0, 1).Draw(t, "sel")
		x0, y0, junk := c12From(new(big.Int).Abs(xv)), c12From(yv), c12From(jv)
		drawn := alias
		for _, be := range backends {
			for _, alias := range kit.Patterns(drawn) {
				hasBMI2 = be.flag
				c := &kit.Case{T: t, Type: "fp384", Op: op, Backend: be.name, Alias: alias}
				canonical := func(what string, got *fp384, want *big.Int) bool {
					// results must be fully reduced: the package compares elements byte-wise
					return c.Expect(what, c12To(got), kit.Mod(want, prime))
				}
				switch op {
				case "Add", "Sub", "Mul":
					c.Vals, c.Classes = []*big.Int{xv, yv}, []string{xc, yc}
					fn := map[string]func(c, a, b *fp384){"Add": fp384Add, "Sub": fp384Sub, "Mul": fp384Mul}[op]
					z, xo, yo := kit.Bin(alias, fn, x0, y0, junk)
					w := new(big.Int)
					switch op {
					case "Add":
						w.Add(xv, yv)
					case "Sub":
						w.Sub(xv, yv)
					case "Mul":
						w.Mul(xv, yv).Mul(w, rinv)
					}
					if !canonical("result", &z, w) {
						return
					}
					if (alias == kit.AliasNone || alias == kit.AliasZY || alias == kit.AliasXY) && xo != x0 ||
						(alias == kit.AliasNone || alias == kit.AliasZX) && yo != y0 {
						c.Fail("operand-clobbered", fmt.Sprintf("x=%x y=%x", xo, yo))
						return
					}
				case "Sqr", "Neg", "Inv", "montEncode", "montDecode":
					c.Vals, c.Classes = []*big.Int{xv}, []string{xc}
					fn := map[string]func(c, a *fp384){"Sqr": fp384Sqr, "Neg": fp384Neg, "Inv": fp384Inv, "montEncode": montEncode, "montDecode": montDecode}[op]
					z, xo := kit.Un(alias, fn, x0, junk)
					w := new(big.Int)
					switch op {
					case "Sqr":
						w.Mul(xv, xv).Mul(w, rinv)
					case "Neg":
						w.Neg(xv)
					case "montEncode":
						w.Mul(xv, R)
					case "montDecode":
						w.Mul(xv, rinv)
					case "Inv":
						if xv.Sign() == 0 {
							vlib.Class("fp384", "inv-of-zero(not asserted)")
							w = nil
						} else {
							// x = aR ↦ a⁻¹R = R²·x⁻¹
							w.ModInverse(xv, prime).Mul(w, R).Mul(w, R)
						}
					}
					if w != nil && !canonical("result", &z, w) {
						return
					}
					if alias == kit.AliasNone && xo != x0 {
						c.Fail("operand-clobbered", fmt.Sprintf("x=%x", xo))
						return
					}
				case "Cmov":
					c.Vals, c.Classes = []*big.Int{xv, yv, big.NewInt(int64(sel))}, []string{xc, yc, "sel"}
					a, b := x0, y0
					fp384Cmov(&a, &b, sel)
					wa := x0
					if sel == 1 {
						wa = y0
					}
					if a != wa || b != y0 {
						c.Fail("wrong-selection", fmt.Sprintf("after: x=%x y=%x", a, b))
						return
					}
				case "SetBigInt":
					c.Vals, c.Classes = []*big.Int{xv}, []string{xc}
					a := junk
					in := new(big.Int).Set(xv)
					a.SetBigInt(in)
					if in.Cmp(xv) != 0 {
						c.Fail("argument-modified", "SetBigInt changed its argument")
						return
					}
					// value is kept modulo p and fits the element
					if !c.Expect("residue", kit.Mod(c12To(&a), prime), kit.Mod(xv, prime)) {
						return
					}
					if !c.Expect("BigInt", a.BigInt(), c12To(&a)) {
						return
					}
				}
				c.Done()
			}
			if op == "Cmov" || op == "SetBigInt" || op == "Add" || op == "Sub" || op == "Neg" {
				break // these do not depend on hasBMI2
			}
		}
	})
}
