//go:build verif && amd64 && !purego

// C12 white-box: FourQ's GF(2^127-1) and GF((2^127-1)^2) on generic Go, legacy
// assembly and BMI2 assembly against math/big. Operand domain: what the
// package's arithmetic produces, i.e. 127-bit values 0..p (p itself is the one
// unreduced representative, see fp_amd64.s fpMod).
package fourq

import (
	"bytes"
	"fmt"
	"math/big"
	"testing"

	"github.com/cloudflare/circl/zz_verif/c12/kit"
	"github.com/cloudflare/circl/zz_verif/vlib"
	"golang.org/x/sys/cpu"
	"pgregory.net/rapid"
)

var c12P = new(big.Int).Sub(kit.Pow2(127), big.NewInt(1))

func c12FpFrom(v *big.Int) (e Fp) { copy(e[:], vlib.LE(v, SizeFp)); return }
func c12FpTo(e *Fp) *big.Int      { return vlib.FromLE(e[:]) }
func c12FqFrom(a, b *big.Int) Fq  { return Fq{c12FpFrom(a), c12FpFrom(b)} }

type c12FpBackend struct {
	name          string
	flag          bool
	mod           func(c *Fp)
	add, sub, mul func(c, a, b *Fp)
	sqr, hlf      func(c, a *Fp)
}

type c12FqBackend struct {
	name          string
	flag          bool
	add, sub, mul func(c, a, b *Fq)
	sqr           func(c, a *Fq)
}

func TestVerifC12FourQFp(t *testing.T) {
	defer vlib.Done()
	saved := hasBMI2
	defer func() { hasBMI2 = saved }()
	p := c12P
	if c12FpTo(&modulusP).Cmp(p) != 0 {
		vlib.ReportDirect(t, "C12/fourq.Fp/modulusP/const/wrong-constant", "modulusP is not 2^127-1", nil)
		return
	}
	f := &kit.F{Name: "fourq.Fp", P: p, Bits: 127, C: 1}
	bes := []c12FpBackend{
		{"generic", hasBMI2, fpModGeneric, fpAddGeneric, fpSubGeneric, fpMulGeneric, fpSqrGeneric, fpHlfGeneric},
		{"asm", hasBMI2, fpMod, fpAdd, fpSub, fpMul, fpSqr, fpHlf},
	}
	ops := []string{"Add", "Sub", "Mul", "Mul", "Sqr", "Hlf", "Mod", "Neg", "Inv", "isZero", "toBigInt", "setBigInt", "toBytes", "fromBytes"}
	vlib.Check(t, vlib.N(15000, 100000), func(t *rapid.T) {
		op := rapid.SampledFrom(ops).Draw(t, "op")
		xv, xc := f.Operand(t, "x")
		yv, yc := f.Operand(t, "y")
		jv, _ := f.Operand(t, "junk")
		alias := kit.AliasNone
		switch op {
		case "Add", "Sub", "Mul":
			alias = kit.DrawAlias3(t)
		case "Sqr", "Hlf", "Neg", "Inv":
			alias = kit.DrawAlias2(t)
		case "fromBytes", "setBigInt":
			// canonical inputs only (the alias p of 0 in fromBytes is property C09's business)
			xv = kit.Mod(xv, p)
			xc = "canonical"
		}
		if alias == kit.AliasXY || alias == kit.AliasAll {
			yv, yc = xv, xc
		}
		x0, y0, junk := c12FpFrom(xv), c12FpFrom(yv), c12FpFrom(jv)
		xm, ym := kit.Mod(xv, p), kit.Mod(yv, p)
		drawn := alias
		for _, be := range bes {
			for _, alias := range kit.Patterns(drawn) {
				c := &kit.Case{T: t, Type: "fourq.Fp", Op: op, Backend: be.name, Alias: alias}
				inDomain := func(e *Fp) bool {
					if e[SizeFp-1]>>7 != 0 {
						c.Fail("out-of-domain", fmt.Sprintf("result %x has bit 127 set", c12FpTo(e)))
						return false
					}
					return true
				}
				res := func(e *Fp) *big.Int { return kit.Mod(c12FpTo(e), p) }
				switch op {
				case "Add", "Sub", "Mul":
					c.Vals, c.Classes = []*big.Int{xv, yv}, []string{xc, yc}
					fn := map[string]func(c, a, b *Fp){"Add": be.add, "Sub": be.sub, "Mul": be.mul}[op]
					z, _, _ := kit.Bin(alias, fn, x0, y0, junk)
					w := new(big.Int)
					switch op {
					case "Add":
						w.Add(xm, ym)
					case "Sub":
						w.Sub(xm, ym)
					case "Mul":
						w.Mul(xm, ym)
					}
					if !c.Expect("residue", res(&z), w.Mod(w, p)) || !inDomain(&z) {
						return
					}
				case "Sqr", "Hlf":
					c.Vals, c.Classes = []*big.Int{xv}, []string{xc}
					fn := be.sqr
					w := new(big.Int).Mul(xm, xm)
					if op == "Hlf" {
						fn = be.hlf
						w.Mul(xm, new(big.Int).ModInverse(big.NewInt(2), p))
					}
					z, _ := kit.Un(alias, fn, x0, junk)
					if !c.Expect("residue", res(&z), w.Mod(w, p)) || !inDomain(&z) {
						return
					}
				case "Mod":
					c.Vals, c.Classes = []*big.Int{xv}, []string{xc}
					z := x0
					be.mod(&z)
					if !c.Expect("canonical", c12FpTo(&z), xm) {
						return
					}
				default:
					if be.name != "asm" {
						continue // composite functions run on the package's dispatch only
					}
					c.Vals, c.Classes = []*big.Int{xv}, []string{xc}
					switch op {
					case "Neg", "Inv":
						fn := fpNeg
						w := new(big.Int).Neg(xm)
						if op == "Inv" {
							fn = fpInv
							if xm.Sign() == 0 {
								vlib.Class("fourq.Fp", "inv-of-zero(not asserted)")
								w = nil
							} else {
								w.ModInverse(xm, p)
							}
						}
						z, _ := kit.Un(alias, fn, x0, junk)
						if w != nil && (!c.Expect("residue", res(&z), w.Mod(w, p)) || !inDomain(&z)) {
							return
						}
					case "isZero":
						a := x0
						got := a.isZero()
						vlib.Class("fourq.Fp", fmt.Sprintf("isZero=%v", xm.Sign() == 0))
						if got != (xm.Sign() == 0) {
							c.Fail("wrong-predicate", fmt.Sprintf("isZero=%v", got))
							return
						}
					case "toBigInt":
						a := x0
						if !c.Expect("canonical", a.toBigInt(), xm) {
							return
						}
					case "setBigInt":
						a := junk
						a.setBigInt(new(big.Int).Set(xv))
						if !c.Expect("canonical", c12FpTo(&a), xm) {
							return
						}
					case "toBytes":
						a := x0
						buf := make([]byte, SizeFp)
						a.toBytes(buf)
						if !bytes.Equal(buf, vlib.LE(xm, SizeFp)) {
							c.Fail("wrong-canonical", fmt.Sprintf("toBytes gave %x", buf))
							return
						}
					case "fromBytes":
						a := junk
						if ok := a.fromBytes(vlib.LE(xv, SizeFp)); !ok || c12FpTo(&a).Cmp(xv) != 0 {
							c.Fail("canonical-refused", fmt.Sprintf("ok=%v value=%x", ok, c12FpTo(&a)))
							return
						}
						// bit 127 set: not an element
						hi := vlib.LE(new(big.Int).Add(xv, kit.Pow2(127)), SizeFp)
						a = junk
						if a.fromBytes(hi) {
							c.Fail("bit127-accepted", fmt.Sprintf("fromBytes(%x) returned true", hi))
							return
						}
					}
				}
				c.Done()
			}
		}
	})
}

func TestVerifC12FourQFq(t *testing.T) {
	defer vlib.Done()
	saved := hasBMI2
	defer func() { hasBMI2 = saved }()
	p := c12P
	f := &kit.F{Name: "fourq.Fq", P: p, Bits: 127, C: 1}
	bes := []c12FqBackend{
		{"generic", saved, fqAddGeneric, fqSubGeneric, fqMulGeneric, fqSqrGeneric},
		{"asm-legacy", false, fqAdd, fqSub, fqMul, fqSqr},
	}
	if cpu.X86.HasBMI2 {
		bes = append(bes, c12FqBackend{"asm-bmi2", true, fqAdd, fqSub, fqMul, fqSqr})
	} else {
		vlib.Note("fourq.Fq: CPU lacks BMI2, that back-end is not evaluated")
	}
	mulRef := func(a0, a1, b0, b1 *big.Int) (*big.Int, *big.Int) {
		r0 := new(big.Int).Mul(a0, b0)
		r0.Sub(r0, new(big.Int).Mul(a1, b1))
		r1 := new(big.Int).Mul(a0, b1)
		r1.Add(r1, new(big.Int).Mul(a1, b0))
		return r0.Mod(r0, p), r1.Mod(r1, p)
	}
	ops := []string{"Add", "Sub", "Mul", "Mul", "Sqr", "Neg", "Inv", "Cmov", "Sqrt", "isZero", "bytes"}
	vlib.Check(t, vlib.N(12000, 80000), func(t *rapid.T) {
		op := rapid.SampledFrom(ops).Draw(t, "op")
		x0v, xc0 := f.Operand(t, "x0")
		x1v, xc1 := f.Operand(t, "x1")
		y0v, yc0 := f.Operand(t, "y0")
		y1v, yc1 := f.Operand(t, "y1")
		j0, _ := f.Operand(t, "j0")
		j1, _ := f.Operand(t, "j1")
		alias := kit.AliasNone
		switch op {
		case "Add", "Sub", "Mul":
			alias = kit.DrawAlias3(t)
		case "Sqr", "Neg", "Inv":
			alias = kit.DrawAlias2(t)
		case "bytes":
			x0v, x1v, xc0, xc1 = kit.Mod(x0v, p), kit.Mod(x1v, p), "canonical", "canonical"
		}
		if alias == kit.AliasXY || alias == kit.AliasAll {
			y0v, y1v, yc0, yc1 = x0v, x1v, xc0, xc1
		}
		sel := rapid.IntRange(0, 1).Draw(t, "sel")
		sgn := rapid.SampledFrom([]int{1, -1}).Draw(t, "sgn")
		x, y, junk := c12FqFrom(x0v, x1v), c12FqFrom(y0v, y1v), c12FqFrom(j0, j1)
		xm0, xm1, ym0, ym1 := kit.Mod(x0v, p), kit.Mod(x1v, p), kit.Mod(y0v, p), kit.Mod(y1v, p)
		drawn := alias
		for _, be := range bes {
			for _, alias := range kit.Patterns(drawn) {
				hasBMI2 = be.flag
				c := &kit.Case{T: t, Type: "fourq.Fq", Op: op, Backend: be.name, Alias: alias,
					Vals: []*big.Int{x0v, x1v, y0v, y1v}, Classes: []string{xc0, xc1, yc0, yc1}}
				check := func(z *Fq, w0, w1 *big.Int) bool {
					if !c.Expect("residue-re", kit.Mod(c12FpTo(&z[0]), p), kit.Mod(w0, p)) ||
						!c.Expect("residue-im", kit.Mod(c12FpTo(&z[1]), p), kit.Mod(w1, p)) {
						return false
					}
					// right residue, but the package's representation invariant is 0 ≤ value ≤ p (127 bits)
					if z[0][SizeFp-1]>>7 != 0 || z[1][SizeFp-1]>>7 != 0 {
						c.Fail("out-of-domain", fmt.Sprintf("result %x,%x has bit 127 set", c12FpTo(&z[0]), c12FpTo(&z[1])))
						return false
					}
					return true
				}
				switch op {
				case "Add", "Sub", "Mul":
					fn := map[string]func(c, a, b *Fq){"Add": be.add, "Sub": be.sub, "Mul": be.mul}[op]
					z, _, _ := kit.Bin(alias, fn, x, y, junk)
					var w0, w1 *big.Int
					switch op {
					case "Add":
						w0, w1 = new(big.Int).Add(xm0, ym0), new(big.Int).Add(xm1, ym1)
					case "Sub":
						w0, w1 = new(big.Int).Sub(xm0, ym0), new(big.Int).Sub(xm1, ym1)
					case "Mul":
						w0, w1 = mulRef(xm0, xm1, ym0, ym1)
					}
					if !check(&z, w0, w1) {
						return
					}
				case "Sqr":
					c.Vals, c.Classes = c.Vals[:2], c.Classes[:2]
					z, _ := kit.Un(alias, be.sqr, x, junk)
					w0, w1 := mulRef(xm0, xm1, xm0, xm1)
					if !check(&z, w0, w1) {
						return
					}
				default:
					if be.name == "generic" {
						continue
					}
					switch op {
					case "Neg":
						c.Vals, c.Classes = c.Vals[:2], c.Classes[:2]
						z, _ := kit.Un(alias, fqNeg, x, junk)
						if !check(&z, new(big.Int).Neg(xm0), new(big.Int).Neg(xm1)) {
							return
						}
					case "Inv":
						c.Vals, c.Classes = c.Vals[:2], c.Classes[:2]
						z, _ := kit.Un(alias, fqInv, x, junk)
						if xm0.Sign() == 0 && xm1.Sign() == 0 {
							vlib.Class("fourq.Fq", "inv-of-zero(not asserted)")
							break
						}
						// z·x must be 1
						r0, r1 := mulRef(kit.Mod(c12FpTo(&z[0]), p), kit.Mod(c12FpTo(&z[1]), p), xm0, xm1)
						if r0.Cmp(big.NewInt(1)) != 0 || r1.Sign() != 0 {
							c.Fail("wrong-inverse", fmt.Sprintf("z·x = %x + %x·i", r0, r1))
							return
						}
					case "Cmov":
						c.Vals, c.Classes = append(c.Vals, big.NewInt(int64(sel))), append(c.Classes, "sel")
						a, b := x, y
						fqCmov(&a, &b, sel)
						wa := x
						if sel == 1 {
							wa = y
						}
						if a != wa || b != y {
							c.Fail("wrong-selection", fmt.Sprintf("after: %x %x", a, b))
							return
						}
					case "isZero":
						c.Vals, c.Classes = c.Vals[:2], c.Classes[:2]
						a := x
						want := xm0.Sign() == 0 && xm1.Sign() == 0
						vlib.Class("fourq.Fq", fmt.Sprintf("isZero=%v", want))
						if a.isZero() != want {
							c.Fail("wrong-predicate", fmt.Sprintf("isZero=%v", !want))
							return
						}
					case "bytes":
						c.Vals, c.Classes = c.Vals[:2], c.Classes[:2]
						a := x
						buf := make([]byte, 2*SizeFp)
						a.toBytes(buf)
						want := append(vlib.LE(xm0, SizeFp), vlib.LE(xm1, SizeFp)...)
						if !bytes.Equal(buf, want) {
							c.Fail("wrong-canonical", fmt.Sprintf("toBytes gave %x", buf))
							return
						}
						var b Fq
						if !b.fromBytes(buf) || b != c12FqFrom(xm0, xm1) {
							c.Fail("roundtrip", fmt.Sprintf("fromBytes(toBytes(x)) = %x", b))
							return
						}
					case "Sqrt":
						// u := w²·v for v ≠ 0 so that u/v is a square; c (or its conjugate) must satisfy c²·v = u, and sgn(c) = s
						if ym0.Sign() == 0 && ym1.Sign() == 0 {
							continue
						}
						w0, w1 := mulRef(xm0, xm1, xm0, xm1)
						u0, u1 := mulRef(w0, w1, ym0, ym1)
						u, v := c12FqFrom(u0, u1), y
						var r Fq
						fqSqrt(&r, &u, &v, sgn)
						r0, r1 := kit.Mod(c12FpTo(&r[0]), p), kit.Mod(c12FpTo(&r[1]), p)
						s0, s1 := mulRef(r0, r1, r0, r1)
						s0, s1 = mulRef(s0, s1, ym0, ym1)
						// fqSqrt may return the conjugate of a root: its only caller (Point.Unmarshal)
						// negates the imaginary part when the first candidate is not on the curve,
						// so both are within the function's (internal) contract
						n1 := kit.Mod(new(big.Int).Neg(r1), p)
						q0, q1 := mulRef(r0, n1, r0, n1)
						q0, q1 = mulRef(q0, q1, ym0, ym1)
						if s0.Cmp(u0) == 0 && s1.Cmp(u1) == 0 {
							vlib.Class("fourq.Fq", "sqrt=root")
						} else if q0.Cmp(u0) == 0 && q1.Cmp(u1) == 0 {
							vlib.Class("fourq.Fq", "sqrt=conjugate-of-root")
						} else {
							c.Fail("wrong-sqrt", fmt.Sprintf("c=%x+%x·i: c²·v = %x+%x·i, u = %x+%x·i", r0, r1, s0, s1, u0, u1))
							return
						}
						if (r0.Sign() != 0 || r1.Sign() != 0) && fqSgn(&r) != sgn {
							c.Fail("wrong-sign", fmt.Sprintf("c=%x+%x·i has sign %d, want %d", r0, r1, fqSgn(&r), sgn))
							return
						}
					}
				}
				c.Done()
			}
			if op != "Mul" && op != "Sqr" && op != "Add" && op != "Sub" && be.name != "generic" {
				break // the composite functions use only fp* routines, which have a single assembly path
			}
		}
	})
}

// Deterministic sweep of isZero over every single-bit and one-limb pattern.
func TestVerifC12FourQPredicates(t *testing.T) {
	defer vlib.Done()
	f := &kit.F{Name: "fourq.Fp", P: c12P, Bits: 127, C: 1}
	kit.SweepPredicates(t, &kit.Preds[Fp]{F: f, Type: "fourq.Fp", Backend: "asm", From: c12FpFrom,
		IsZero: func(x *Fp) bool { return x.isZero() }})
	for half := 0; half < 2; half++ {
		half := half
		kit.SweepPredicates(t, &kit.Preds[Fq]{F: f, Type: "fourq.Fq", Backend: fmt.Sprintf("asm/half%d", half),
			From:   func(v *big.Int) (z Fq) { z[half] = c12FpFrom(v); return },
			IsZero: func(x *Fq) bool { return x.isZero() }})
	}
}
