#!/bin/bash
# Regenerates the C04 white-box overlays from the two templates in this directory.
# internal_template.go.txt -> harness/sign/{mldsa/mldsa44,65,87,dilithium/mode2,3,5}/internal/zz_verif_c04_test.go (identical copies; package internal)
# pkg_template.go.txt      -> harness/sign/mldsa/mldsa{44,65,87}/zz_verif_c04_test.go (PKGNAME substituted)
set -e
H=/verif/harness
D=$(dirname "$0")
for d in sign/mldsa/mldsa44 sign/mldsa/mldsa65 sign/mldsa/mldsa87 sign/dilithium/mode2 sign/dilithium/mode3 sign/dilithium/mode5; do
  mkdir -p $H/$d/internal
  cp $D/internal_template.go.txt $H/$d/internal/zz_verif_c04_test.go
done
for n in 44 65 87; do sed "s/PKGNAME/mldsa$n/" $D/pkg_template.go.txt > $H/sign/mldsa/mldsa$n/zz_verif_c04_test.go; done
# harness/zz_verif/c04/schemes_test.go: six adapters (derive/signTo/verify/unpackPK/unpackSK/public closures), one per circl package;
# the ML-DSA ones pass ctx, the Dilithium ones ignore it. Edit by hand (search/replace of the package name) if an API changes.
