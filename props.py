"""Per-property check specifications used by check.py.

Each property lists the test binaries that decide it.  A binary spec:
  name      binary name
  pkg       package path relative to the circl module root (virtual zz_verif/* dirs are injected by overlay)
  run       -test.run regex
  whitebox  True if overlaid into an existing circl package (build failure => sub-check unavailable, not exit 2)
  race      build with -race
  configs   list of {name, tags, env}: build/CPU configurations (default: one 'default' config)
  quick_configs  subset of config names used in the quick tier
  shards    {tier: n} number of processes (different rapid seeds / enumeration slices)
  tiers     tiers in which the binary runs
"""

CPU_OFF = [
    {"name": "default", "first": True},
    {"name": "purego", "tags": ["purego"]},
    {"name": "noavx2", "env": {"GODEBUG": "cpu.avx2=off"}},
    {"name": "nobmi2", "env": {"GODEBUG": "cpu.bmi2=off"}},
    {"name": "noadx", "env": {"GODEBUG": "cpu.adx=off"}},
    {"name": "alloff", "env": {"GODEBUG": "cpu.avx2=off,cpu.bmi2=off,cpu.adx=off"}},
]

COMMON_ASSUME = [
    "the Go toolchain, math/big, crypto/* of the standard library and golang.org/x/crypto are correct (they are the independent oracles)",
    "events of probability <= 2^-64 (hash collisions in the distinctness count, a random alteration re-encrypting to itself) are ignored",
    "generated-input search never establishes absence: the verdict is 'held on everything explored'",
]


import glob as _glob, importlib.util as _ilu, os as _os

PROPS = {}
MANIFEST_TEXT = {}
for _f in sorted(_glob.glob(_os.path.join(_os.path.dirname(_os.path.abspath(__file__)), "propspecs", "C*.py"))):
    _pid = _os.path.basename(_f)[:-3]
    _spec = _ilu.spec_from_file_location("propspecs_" + _pid, _f)
    _m = _ilu.module_from_spec(_spec)
    _m.CPU_OFF = CPU_OFF
    _m.COMMON_ASSUME = COMMON_ASSUME
    try:
        _spec.loader.exec_module(_m)
        PROPS[_pid] = _m.SPEC
        MANIFEST_TEXT[_pid] = _m.MANIFEST
    except Exception as _e:  # a broken spec must not take the other properties down
        import sys as _sys
        print("props.py: cannot load %s: %r" % (_f, _e), file=_sys.stderr)
