"""Per-property check specifications used by check.py.

Each property lists the test binaries that decide it.  A binary spec:
  name      binary name
  pkg       package path relative to the circl module root (virtual zz_verif/* dirs are injected by overlay)
  run       -test.run regex
  whitebox  True if overlaid into an existing circl package (build failure => sub-check unavailable, not exit 2)
  race      build with -race
  configs   list of {name, tags, env}: build/CPU configurations (default: one 'default' config)
  quick_configs  subset of config names used in the quick tier
  shards    {tier: n} number of processes (different rapid seeds / enumeration slices)
  tiers     tiers in which the binary runs
"""

CPU_OFF = [
    {"name": "default"},
    {"name": "purego", "tags": ["purego"]},
    {"name": "noavx2", "env": {"GODEBUG": "cpu.avx2=off"}},
    {"name": "nobmi2", "env": {"GODEBUG": "cpu.bmi2=off"}},
    {"name": "noadx", "env": {"GODEBUG": "cpu.adx=off"}},
    {"name": "alloff", "env": {"GODEBUG": "cpu.avx2=off,cpu.bmi2=off,cpu.adx=off"}},
]

COMMON_ASSUME = [
    "the Go toolchain, math/big, crypto/* of the standard library and golang.org/x/crypto are correct (they are the independent oracles)",
    "events of probability <= 2^-64 (hash collisions in the distinctness count, a random alteration re-encrypting to itself) are ignored",
    "generated-input search never establishes absence: the verdict is 'held on everything explored'",
]

PROPS = {
    "C01": {
        "bins": [
            {"name": "c01", "pkg": "./zz_verif/c01", "run": ".", "shards": {"quick": 1, "thorough": 16}},
        ],
        "rule": "case = (scheme, key seed, encapsulation seed, alteration) drawn by rapid from edge-biased seeds over all 21 KEM schemes "
                "(kem/schemes.All() + the two HPKE-only hybrids); thorough adds every single-bit flip of one honest ciphertext per scheme. "
                "non-trivial = the case contains an altered ciphertext whose decapsulation returned without error (FO/implicit-rejection or combiner path exercised), "
                "a marshal/unmarshal round trip, or a wrong-sender auth decapsulation; distinct by FNV-64 of (sub-check, seeds, alteration, ciphertext)",
        "assumptions": COMMON_ASSUME + ["x/crypto/sha3 SHAKE256/SHA3-256 used to recompute the ML-KEM / Kyber rejection secret"],
        "budget": {"quick": 900, "thorough": 3600},
    },
}
