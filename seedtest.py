#!/usr/bin/env python3
"""Confirm a seeded change and run the checks against it.

  python3 seedtest.py <PROP> <src dir with patch.diff/demo_test.go/notes.md> <pkgdir of demo> <demo -run regex> [check ids...] [--env K=V]

Steps (all in a scratch worktree /tmp/st-<PROP>-<n>, removed at the end):
  1. patch applies; touched packages build and their own tests pass (plus the demo package)
  2. demo FAILS with the change, PASSES without
  3. python3 check.py <id> quick with VERIF_REPO=<worktree>  (expected: exit 1)
Writes /verif/seeded/<PROP>-<n>/{patch.diff,demo_test.go,notes.md,meta.json}.
"""
import json, os, re, shutil, subprocess, sys, time

def sh(cmd, cwd=None, env=None, timeout=3600):
    e = dict(os.environ, GOFLAGS="-mod=mod", GOPROXY="off", GOSUMDB="off", GOTOOLCHAIN="local")
    if env: e.update(env)
    p = subprocess.run(cmd, shell=True, cwd=cwd, env=e, stdout=subprocess.PIPE, stderr=subprocess.STDOUT, text=True, timeout=timeout)
    return p.returncode, p.stdout

def main():
    args = sys.argv[1:]
    envs = {}
    while "--env" in args:
        i = args.index("--env"); k, v = args[i+1].split("=", 1); envs[k] = v; del args[i:i+2]
    tags = ""
    if "--tags" in args:
        i = args.index("--tags"); tags = "-tags " + args[i+1]; del args[i:i+2]
    if len(args) >= 2 and os.path.exists(os.path.join(args[1], "demo.txt")) and (len(args) == 2 or args[2].startswith("C")):
        # batch-2 layout: demo.txt = "<pkg dir> <run regexp> [GODEBUG=..] [tags=..]"
        f = open(os.path.join(args[1], "demo.txt")).read().split()
        for x in f[2:]:
            if x.startswith("GODEBUG="):
                envs["GODEBUG"] = x[8:]
            if x.startswith("tags="):
                tags = "-tags " + x[5:]
        args = [args[0], args[1], f[0], f[1]] + args[2:]
    prop, src, pkg, runre = args[:4]
    checks = args[4:] or [prop]
    n = os.path.basename(src.rstrip("/")).replace("change", "")
    if "/seed2/" in src:
        n = str(int(n) + 3)
    if "/seed8/" in src:
        n = str(int(n) + 21)
    if "/seed9/" in src:
        n = str(int(n) + 24)
    if "/seed7/" in src:
        n = str(int(n) + 18)
    if "/seed6/" in src:
        n = str(int(n) + 15)
    if "/seed5/" in src:
        n = str(int(n) + 12)
    if "/seed4/" in src:
        n = str(int(n) + 9)
    if "/seed3/" in src:
        n = str(int(n) + 6)
    sid = "%s-%s" % (prop, n)
    wt = "/tmp/st-%s" % sid
    sh("git -C /repo worktree remove --force %s" % wt)
    rc, out = sh("git -C /repo worktree add --detach %s HEAD" % wt)
    assert rc == 0, out
    meta = {"id": sid, "property": prop, "needs": "", "ran": [], "time": time.strftime("%Y-%m-%d %H:%M")}
    try:
        rc, out = sh("git apply %s/patch.diff" % src, cwd=wt)
        assert rc == 0, "patch does not apply: " + out
        rc, out = sh("git diff --stat", cwd=wt); touched = out
        pkgs = sorted(set("./" + os.path.dirname(l.split("|")[0].strip()) + "/" for l in out.splitlines() if "|" in l))
        meta["touched"] = [l.split("|")[0].strip() for l in out.splitlines() if "|" in l]
        rc, out = sh("go build ./... ", cwd=wt)
        assert rc == 0, "build fails: " + out[-2000:]
        testpk = sorted(set(pkgs + ["./" + pkg.strip("./") + "/"]))
        rc, out = sh("go test -count=1 %s 2>&1 | tail -15" % " ".join(testpk), cwd=wt)
        rc2, out_f = sh("go test -count=1 %s 2>&1 | grep -- '^--- FAIL' | grep -v 'TestVectors '" % " ".join(testpk), cwd=wt)
        own_ok = out_f.strip() == "" and "build failed" not in out
        meta["ran"].append({"cmd": "go test " + " ".join(testpk), "passes": bool(own_ok), "tail": out[-600:]})
        print("[own tests] ok=%s" % own_ok)
        demo = os.path.join(wt, pkg, "zz_seed_demo_test.go")
        shutil.copyfile(os.path.join(src, "demo_test.go"), demo)
        cmd = "go test -count=1 %s ./%s/ -run '%s' 2>&1 | tail -25" % (tags, pkg.strip("./"), runre)
        rc, out = sh(cmd, cwd=wt, env=envs)
        fails_with = ("FAIL" in out)
        print("[demo with change] fails=%s\n%s" % (fails_with, out[-800:]))
        sh("git apply -R %s/patch.diff" % src, cwd=wt)
        rc, out2 = sh(cmd, cwd=wt, env=envs)
        passes_without = ("FAIL" not in out2 and "ok" in out2)
        print("[demo without change] passes=%s\n%s" % (passes_without, out2[-300:]))
        meta["ran"].append({"cmd": cmd + (" env=%s" % envs if envs else ""), "fails_with_change": fails_with, "passes_without": passes_without})
        os.remove(demo)
        sh("git apply %s/patch.diff" % src, cwd=wt)
        meta["checks"] = {}
        for c in checks:
            t0 = time.time()
            rc, out = sh("python3 /verif/check.py %s quick" % c, cwd="/verif", env={"VERIF_REPO": wt}, timeout=7200)
            keys = sorted(set(re.findall(r"VERIF-VIOLATION key=(\S+)", out)))[:12]
            races = re.findall(r"data race\(s\) reported.*", out)[:3]
            meta["checks"][c] = {"exit": rc, "wall_s": round(time.time() - t0), "keys": keys, "races": races}
            print("[check %s] exit=%d keys=%s %s" % (c, rc, keys, races))
        dst = "/verif/seeded/" + sid
        os.makedirs(dst, exist_ok=True)
        for f in ("patch.diff", "demo_test.go", "notes.md"):
            shutil.copyfile(os.path.join(src, f), os.path.join(dst, f))
        meta["confirmed"] = bool(own_ok and fails_with and passes_without)
        json.dump(meta, open(os.path.join(dst, "meta.json"), "w"), indent=1)
    finally:
        sh("git -C /repo worktree remove --force %s" % wt)
        h = __import__("hashlib").sha1(os.path.realpath(wt).encode()).hexdigest()[:8]
        for d in ("build-", "work-", "replays-"):
            shutil.rmtree("/verif/" + d + h, ignore_errors=True)

main()
