#!/usr/bin/env python3
"""Driver for the circl verification harness (property-based testing + fuzzing).

  python3 check.py <ID> quick|thorough
  python3 check.py <ID> --replay <path>
  python3 check.py --setup
  python3 check.py --all quick|thorough

Exit codes: 0 held (possibly with KNOWN-FINDING lines); 1 violation(s) printed as
"VIOLATION property=<ID> replay=<path>"; 2 inconclusive (harness build failure,
oracle self-test failure, budget exceeded, worker death).
"""
import base64
import concurrent.futures as cf
import glob
import hashlib
import json
import os
import re
import shutil
import struct
import subprocess
import sys
import time
import zlib

VERIF = os.path.dirname(os.path.abspath(__file__))
REPO = os.environ.get("VERIF_REPO", "/repo")
HARNESS = os.path.join(VERIF, "harness")
# a tree other than /repo (sensitivity runs against a scratch worktree: VERIF_REPO=<dir>) gets its own
# build/work/evidence/replay directories so that it can never disturb or overwrite the real ones
_SFX = "" if os.path.realpath(REPO) == "/repo" else "-" + hashlib.sha1(os.path.realpath(REPO).encode()).hexdigest()[:8]
BUILD = os.path.join(VERIF, "build" + _SFX)
WORK = os.path.join(VERIF, "work" + _SFX)
EVID = os.path.join(VERIF, "evidence") if not _SFX else os.path.join(WORK, "evidence")
REPLAYS = os.path.join(VERIF, "replays" + _SFX)
KNOWN = os.environ.get("VERIF_KNOWN") or os.path.join(VERIF, "KNOWN_FINDINGS.txt")
MODCACHE = os.environ.get("GOMODCACHE", "/root/go/pkg/mod")
NCPU = os.cpu_count() or 4

sys.path.insert(0, VERIF)
from props import PROPS  # noqa: E402


def goenv(extra=None):
    e = dict(os.environ)
    e.update({"GOFLAGS": "-mod=mod", "GOPROXY": "off", "GOSUMDB": "off", "GOTOOLCHAIN": "local",
              "GONOSUMDB": "*", "GONOSUMCHECK": "1", "GOWORK": "off"})
    e.pop("GODEBUG", None)
    if extra:
        e.update(extra)
    return e


# --------------------------------------------------------------------------- build dir

def h1_of_gomod(path):
    data = open(path, "rb").read()
    summary = "%s  go.mod\n" % hashlib.sha256(data).hexdigest()
    return "h1:" + base64.b64encode(hashlib.sha256(summary.encode()).digest()).decode()


def gen_build():
    os.makedirs(BUILD, exist_ok=True)
    os.makedirs(os.path.join(BUILD, "bin"), exist_ok=True)
    gomod = open(os.path.join(REPO, "go.mod")).read()
    gomod = re.sub(r"(?m)^go \d+\.\d+(\.\d+)?\s*$", "go 1.23", gomod, count=1)
    gomod = re.sub(r"(?m)^toolchain .*\n", "", gomod)
    gomod += "\nrequire pgregory.net/rapid v1.3.0\n"
    gosum = open(os.path.join(REPO, "go.sum")).read()
    dl = os.path.join(MODCACHE, "cache/download/pgregory.net/rapid/@v")
    try:
        ziph = open(os.path.join(dl, "v1.3.0.ziphash")).read().strip()
        modh = h1_of_gomod(os.path.join(dl, "v1.3.0.mod"))
        gosum += "pgregory.net/rapid v1.3.0 %s\npgregory.net/rapid v1.3.0/go.mod %s\n" % (ziph, modh)
    except OSError:
        pass
    _write_if_changed(os.path.join(BUILD, "go.mod"), gomod)
    _write_if_changed(os.path.join(BUILD, "go.sum"), gosum)
    repl = {}
    for root, _dirs, files in os.walk(HARNESS):
        if "/testdata" in root or root.endswith("/testdata"):
            continue
        for f in files:
            if not (f.endswith(".go") or f.endswith(".s") or f.endswith(".h")):
                continue
            src = os.path.join(root, f)
            rel = os.path.relpath(src, HARNESS)
            repl[os.path.join(REPO, rel)] = src
    _write_if_changed(os.path.join(BUILD, "overlay.json"), json.dumps({"Replace": repl}, indent=0, sort_keys=True))


def _write_if_changed(path, content):
    try:
        if open(path).read() == content:
            return
    except OSError:
        pass
    tmp = path + ".tmp%d" % os.getpid()
    with open(tmp, "w") as f:
        f.write(content)
    os.replace(tmp, path)


def bin_path(spec, cfg):
    n = spec["name"]
    if spec.get("race"):
        n += "-race"
    tags = cfg.get("tags") or []
    if tags:
        n += "-" + "-".join(tags)
    if spec.get("fuzz"):
        n += "-fuzz"
    return os.path.join(BUILD, "bin", n + ".test")


def build_one(spec, cfg):
    out = bin_path(spec, cfg)
    tags = ["verif"] + (cfg.get("tags") or []) + (spec.get("tags") or [])
    cmd = ["go", "test", "-c", "-vet=off", "-tags", ",".join(tags),
           "-modfile=" + os.path.join(BUILD, "go.mod"), "-overlay=" + os.path.join(BUILD, "overlay.json"),
           "-o", out]
    if spec.get("race"):
        cmd.append("-race")
    if spec.get("fuzz"):
        cmd.append("-fuzz=^%s$" % spec["fuzz"])
    cmd.append(spec["pkg"])
    t0 = time.time()
    p = subprocess.run(cmd, cwd=REPO, env=goenv(), stdout=subprocess.PIPE, stderr=subprocess.STDOUT, text=True)
    return out, p.returncode, p.stdout, time.time() - t0


def distinct_build_jobs(specs):
    jobs = {}
    for spec in specs:
        for cfg in spec.get("configs") or [{"name": "default"}]:
            jobs[bin_path(spec, cfg)] = (spec, {"tags": cfg.get("tags") or []})
    return jobs


def build_all(specs, log):
    """returns dict binpath -> (ok, output)"""
    jobs = distinct_build_jobs(specs)
    res = {}
    with cf.ThreadPoolExecutor(max_workers=min(6, max(1, len(jobs)))) as ex:
        futs = {ex.submit(build_one, s, c): k for k, (s, c) in jobs.items()}
        for fu in cf.as_completed(futs):
            out, rc, text, dt = fu.result()
            res[out] = (rc == 0, text)
            log.write("[build] %s rc=%d %.1fs\n%s\n" % (out, rc, dt, text if rc else ""))
    return res


# --------------------------------------------------------------------------- running

def rapid_seed(pid, shard, seed):
    v = (seed * 1000003 + (zlib.crc32(pid.encode()) & 0xffffffff) * 7919 + shard) % (2 ** 63 - 1)
    return 1 + v


def run_one(pid, spec, cfg, shard, nshards, tier, seed, outdir, extra_args=None, extra_env=None, timeout=None, files=None):
    b = bin_path(spec, cfg)
    tag = "%s-%s-%d" % (spec["name"], cfg["name"], shard)
    cwd = os.path.join(WORK, pid, tag)
    shutil.rmtree(cwd, ignore_errors=True)
    os.makedirs(cwd)
    for rel, src in (files or {}).items():
        os.makedirs(os.path.dirname(os.path.join(cwd, rel)), exist_ok=True)
        shutil.copyfile(src, os.path.join(cwd, rel))
    env = goenv({
        "VERIF_TIER": tier, "VERIF_SEED": str(seed), "VERIF_SHARD": str(shard), "VERIF_NSHARDS": str(nshards),
        "VERIF_OUT": outdir, "VERIF_REPO": REPO, "VERIF_HARNESS": HARNESS, "VERIF_CONFIG": cfg["name"],
        "VERIF_PROPERTY": pid, "VERIF_KNOWN": KNOWN, "VERIF_WORK": cwd,
    })
    env.update(cfg.get("env") or {})
    if spec.get("race"):
        env["GORACE"] = "halt_on_error=0 exitcode=66 history_size=3"
    if extra_env:
        env.update(extra_env)
    args = [b, "-test.run=" + spec.get("run", "."), "-test.timeout=0", "-test.v=true",
            "-rapid.seed=%d" % rapid_seed(pid, shard, seed)]
    if spec.get("fuzz") and not (extra_args and any(a.startswith("-test.run=") for a in extra_args)):
        args = [b, "-test.run=^$", "-test.fuzz=^%s$" % spec["fuzz"], "-test.fuzztime=%s" % spec.get("fuzztime", "60s"),
                "-test.fuzzcachedir=" + os.path.join(cwd, "fuzzcache"), "-test.timeout=0", "-test.parallel=%d" % NCPU]
    if spec.get("steps"):
        args.append("-rapid.steps=%d" % spec["steps"])
    args += extra_args or []
    logp = os.path.join(cwd, "log.txt")
    t0 = time.time()
    with open(logp, "w") as lf:
        try:
            p = subprocess.run(args, cwd=cwd, env=env, stdout=lf, stderr=subprocess.STDOUT, timeout=timeout)
            rc = p.returncode
        except subprocess.TimeoutExpired:
            rc = -999
    return dict(spec=spec, cfg=cfg, shard=shard, rc=rc, log=logp, cwd=cwd, wall=time.time() - t0, env={k: env[k] for k in env if k.startswith("VERIF_") or k in ("GODEBUG",)}, args=args)


def safe_name(s):
    return "".join(ch if (ch.isalpha() or ch.isdigit() or ch in "-_") else "_" for ch in s)


def tail(path, n=60):
    try:
        lines = open(path, errors="replace").read().splitlines()
    except OSError:
        return ""
    return "\n".join(lines[-n:])


def save_replay(pid, seed, idx, src, meta):
    os.makedirs(REPLAYS, exist_ok=True)
    ext = ".fail" if src.endswith(".fail") else (".json" if src.endswith(".json") else (".txt" if src.endswith(".txt") else ".fuzz"))
    dst = os.path.join(REPLAYS, "%s-seed%d-%d%s" % (pid, seed, idx, ext))
    shutil.copyfile(src, dst)
    with open(dst + ".meta.json", "w") as f:
        json.dump(meta, f, indent=1)
    return dst


def load_known(pid):
    out = {}
    try:
        for line in open(KNOWN):
            line = line.strip()
            if not line.startswith("open:"):
                continue
            f = line[5:].split()
            prop = next((x[9:] for x in f if x.startswith("property=")), "")
            key = next((x[4:] for x in f if x.startswith("key=")), "")
            what = " ".join(x for x in f if not x.startswith("property=") and not x.startswith("key="))
            if prop == pid and key:
                out[key] = what
    except OSError:
        pass
    return out


def race_keys(pid, text):
    """finding keys of the data-race reports in a -race log: <pid>/race/<first circl function of the report>"""
    keys = []
    for blk in re.findall(r"WARNING: DATA RACE\n(.*?)\n==================", text, flags=re.S):
        fn = None
        for m in re.finditer(r"^\s+(github\.com/cloudflare/circl/[^\s(]+(?:\([^)]*\))?[^\s(]*)\(", blk, flags=re.M):
            name = m.group(1)
            if "/zz_verif/" in name:
                continue
            fn = name.replace("github.com/cloudflare/circl/", "")
            break
        keys.append("%s/race/%s" % (pid, fn or "unattributed"))
    return keys


def run_property(pid, tier, seed):
    P = PROPS[pid]
    t0 = time.time()
    os.makedirs(os.path.join(WORK, pid), exist_ok=True)
    os.makedirs(EVID, exist_ok=True)
    outdir = os.path.join(WORK, pid, "out")
    shutil.rmtree(outdir, ignore_errors=True)
    os.makedirs(outdir)
    gen_build()
    specs = [s for s in P["bins"] if tier in s.get("tiers", ["quick", "thorough"])]
    budget = P.get("budget", {}).get(tier, 900 if tier == "quick" else 5400)
    dlog = open(os.path.join(WORK, pid, "driver.log"), "w")
    builds = build_all(specs, dlog)
    unavailable = []
    runs = []
    for spec in specs:
        cfgs = spec.get("configs") or [{"name": "default"}]
        if tier == "quick" and spec.get("quick_configs") is not None:
            cfgs = [c for c in cfgs if c["name"] in spec["quick_configs"]]
        for cfg in cfgs:
            ok, text = builds[bin_path(spec, cfg)]
            if not ok:
                if spec.get("whitebox"):
                    unavailable.append("%s[%s]: white-box sub-check does not compile against this tree: %s" % (spec["name"], cfg["name"], text.strip().splitlines()[-1] if text.strip() else ""))
                    continue
                print("INCONCLUSIVE property=%s harness build failed for %s:\n%s" % (pid, spec["name"], text[-3000:]))
                return 2
            nshards = spec.get("shards", {}).get(tier, 1 if tier == "quick" else NCPU)
            for sh in range(nshards):
                runs.append((spec, cfg, sh, nshards))
    results = []
    deadline = t0 + budget
    # configurations marked "first" (e.g. the reference configuration of a differential check) complete before the others start
    for stage in (True, False):
        with cf.ThreadPoolExecutor(max_workers=NCPU) as ex:
            futs = [ex.submit(run_one, pid, s, c, sh, n, tier, seed, outdir, None, None, max(30, deadline - time.time()))
                    for (s, c, sh, n) in runs if bool(c.get("first")) == stage]
            for fu in futs:
                results.append(fu.result())
    # ---- collect
    violations = []
    inconclusive = []
    known = load_known(pid)
    race_known_hit = {}
    for r in results:
        try:
            text = open(r["log"], errors="replace").read()
        except OSError:
            inconclusive.append("log vanished (concurrent run of the same property?): " + r["log"])
            continue
        if "WARNING: DATA RACE" in text:
            rk = race_keys(pid, text)
            new = sorted(set(k for k in rk if k not in known))
            for k in rk:
                if k in known:
                    race_known_hit[k] = race_known_hit.get(k, 0) + 1
            if new:
                m = dict(property=pid, bin=r["spec"]["name"], config=r["cfg"]["name"], shard=r["shard"], tier=tier, seed=seed, env=r["env"], args=r["args"][1:], kind="log", keys=new)
                violations.append(save_replay(pid, seed, len(violations), r["log"], m))
                sys.stdout.write("data race(s) reported by the race detector: %s\n" % ", ".join(new))
                continue
            if r["rc"] == 66 and not re.search(r"(?m)^--- FAIL", text):
                continue  # only known races: not a violation
        if r["rc"] == 0:
            continue
        if r["rc"] == -999:
            inconclusive.append("%s timed out after %.0fs" % (r["log"], r["wall"]))
            continue
        fails = sorted(glob.glob(os.path.join(r["cwd"], "testdata/rapid/**/*.fail"), recursive=True))
        crashers = sorted(f for f in glob.glob(os.path.join(r["cwd"], "testdata/fuzz/*/*")) if os.path.isfile(f))
        directs = re.findall(r"VERIF-VIOLATION key=(\S+) replayfile=(\S*)", text)
        keys = re.findall(r"VERIF-VIOLATION key=(\S+)", text)
        meta_base = dict(property=pid, bin=r["spec"]["name"], config=r["cfg"]["name"], shard=r["shard"], tier=tier, seed=seed, env=r["env"], args=r["args"][1:])
        got = False
        runs_q = re.findall(r'specify -run="([^"]+)"', text)
        for f in fails:
            tname = os.path.basename(os.path.dirname(f))
            runre = None
            for q in runs_q:
                if safe_name(re.sub(r"\\(.)", r"\1", q)) == tname:
                    runre = "/".join("^" + el + "$" for el in q.split("/"))
            m = dict(meta_base, kind="rapid", test_dir=tname, run=runre, keys=sorted(set(keys)))
            violations.append(save_replay(pid, seed, len(violations), f, m))
            got = True
        for f in crashers:
            m = dict(meta_base, kind="fuzz", fuzz=os.path.basename(os.path.dirname(f)), corpus_name=os.path.basename(f), keys=sorted(set(keys)))
            violations.append(save_replay(pid, seed, len(violations), f, m))
            got = True
        for key, rf in directs:
            if rf and os.path.exists(rf):
                m = dict(meta_base, kind="direct", key=key)
                violations.append(save_replay(pid, seed, len(violations), rf, m))
                got = True
        if not got:
            if "SELFTEST-FAIL" in text:
                inconclusive.append("oracle self-test failed: " + r["log"])
            elif re.search(r"(?m)^(--- FAIL|FAIL|panic:|fatal error:|WARNING: DATA RACE)", text) or r["rc"] in (1, 2, 66):
                m = dict(meta_base, kind="log", keys=sorted(set(keys)))
                violations.append(save_replay(pid, seed, len(violations), r["log"], m))
            else:
                inconclusive.append("worker died rc=%s: %s" % (r["rc"], r["log"]))
    ev = merge_evidence(pid, tier, seed, outdir, P, unavailable, time.time() - t0, len(violations), results)
    fuzz_execs = 0
    for r in results:
        if r["spec"].get("fuzz"):
            m = re.findall(r"execs: (\d+)", open(r["log"], errors="replace").read())
            if m:
                fuzz_execs += int(m[-1])
    if fuzz_execs:
        ev["coverage"]["native_fuzz_execs"] = fuzz_execs
    for k, n in race_known_hit.items():
        ev["coverage"]["known_findings_hit"][k] = ev["coverage"]["known_findings_hit"].get(k, 0) + n
        ev["coverage"]["known_findings_hit_what"][k] = known[k]
    for key, what in sorted(ev["coverage"].get("known_findings_hit_what", {}).items()):
        print("KNOWN-FINDING: property=%s %s (key=%s, %d cases excluded)" % (pid, what, key, ev["coverage"]["known_findings_hit"].get(key, 0)))
    with open(os.path.join(EVID, pid + ".json"), "w") as f:
        json.dump(ev, f, indent=1, sort_keys=True)
    for v in violations:
        print("VIOLATION property=%s replay=%s" % (pid, v))
    for r in results:
        if r["rc"] not in (0,):
            dlog.write("[run] rc=%s %s\n%s\n" % (r["rc"], r["log"], tail(r["log"], 80)))
    dlog.close()
    if violations:
        for r in results:
            if r["rc"] not in (0, -999):
                sys.stdout.write("---- %s (rc=%s)\n%s\n" % (r["log"], r["rc"], tail(r["log"], 40)))
        return 1
    if inconclusive:
        for s in inconclusive:
            print("INCONCLUSIVE property=%s %s" % (pid, s))
        return 2
    if not ev["coverage"]["samples"] or ev["coverage"]["distinct_nontrivial"] < 2:
        print("INCONCLUSIVE property=%s evidence incomplete: no samples recorded (vlib.Sample) or fewer than 2 distinct non-trivial cases (vlib.NonTrivial)" % pid)
        return 2
    if ev["coverage"]["evaluations"] == 0:
        print("INCONCLUSIVE property=%s no cases were evaluated" % pid)
        return 2
    print("OK property=%s tier=%s seed=%d evaluations=%d distinct_nontrivial=%d wall=%.1fs" % (
        pid, tier, seed, ev["coverage"]["evaluations"], ev["coverage"]["distinct_nontrivial"], time.time() - t0))
    return 0


def merge_evidence(pid, tier, seed, outdir, P, unavailable, wall, nviol, results):
    subs = {}
    known_hit, known_what = {}, {}
    notes, exh, selftests = list(unavailable), [], {}
    capped = set()
    configs = set()
    for jf in sorted(glob.glob(os.path.join(outdir, "ev-*.json"))):
        try:
            d = json.load(open(jf))
        except Exception:
            continue
        configs.add(d.get("config", "default"))
        for name, s in (d.get("subs") or {}).items():
            a = subs.setdefault(name, {"evaluations": 0, "nontrivial": 0, "classes": {}, "samples": {}})
            a["evaluations"] += s.get("evaluations", 0)
            a["nontrivial"] += s.get("nontrivial", 0)
            for k, v in (s.get("classes") or {}).items():
                a["classes"][k] = a["classes"].get(k, 0) + v
            for k, v in (s.get("samples") or {}).items():
                if k not in a["samples"] and len(a["samples"]) < 12:
                    a["samples"][k] = v[:1]
        for k, v in (d.get("known_hit") or {}).items():
            known_hit[k] = known_hit.get(k, 0) + v
        known_what.update(d.get("known_what") or {})
        notes += d.get("notes") or []
        for e in d.get("exhaustive_subdomains") or []:
            if e not in exh:
                exh.append(e)
        selftests.update(d.get("oracle_selftests") or {})
        capped.update(d.get("capped") or [])
    hashes = set()
    for hf in glob.glob(os.path.join(outdir, "ev-*.hashes")):
        data = open(hf, "rb").read()
        n = len(data) // 8
        hashes.update(struct.unpack("<%dQ" % n, data[:8 * n]))
    evaluations = sum(s["evaluations"] for s in subs.values())
    samples = []
    for name in sorted(subs):
        for cls, v in sorted(subs[name]["samples"].items()):
            if len(samples) < 40:
                samples.append({"subcheck": name, "class": cls, "case": v[0]})
    rule = P.get("rule", "")
    if capped:
        rule += " [recorder cap of 4M hashes reached in: %s — distinct_nontrivial under-counts]" % ", ".join(sorted(capped))
    cov = {
        "evaluations": int(evaluations),
        "distinct_nontrivial": len(hashes),
        "rule": rule,
        "samples": samples,
        "subchecks": {n: {"evaluations": s["evaluations"], "nontrivial_evaluations": s["nontrivial"], "classes": s["classes"]} for n, s in sorted(subs.items())},
        "configs": sorted(configs),
        "exhaustive_subdomains": exh,
        "oracle_selftests": selftests,
        "known_findings_hit": known_hit,
        "known_findings_hit_what": known_what,
        "notes": sorted(set(notes)),
        "processes": len(results),
        "exhaustive": False,
    }
    return {
        "property_id": pid, "tier": tier, "seed": int(seed), "level": "exploration",
        "coverage": cov, "assumptions": P.get("assumptions", []), "wall_s": round(wall, 2), "violations": int(nviol),
    }


# --------------------------------------------------------------------------- replay

def replay(pid, path):
    path = os.path.abspath(path)
    mp = path + ".meta.json"
    if not os.path.exists(mp):
        print("no meta file beside %s" % path)
        return 2
    meta = json.load(open(mp))
    P = PROPS[pid]
    spec = next(s for s in P["bins"] if s["name"] == meta["bin"])
    cfg = next(c for c in (spec.get("configs") or [{"name": "default"}]) if c["name"] == meta["config"])
    gen_build()
    with open(os.path.join(WORK, "replay-build.log"), "w") as lg:
        os.makedirs(WORK, exist_ok=True)
        builds = build_all([dict(spec, configs=[cfg])], lg)
    ok, text = builds[bin_path(spec, cfg)]
    if not ok:
        print("INCONCLUSIVE harness build failed:\n" + text[-2000:])
        return 2
    outdir = os.path.join(WORK, pid, "replay-out")
    shutil.rmtree(outdir, ignore_errors=True)
    os.makedirs(outdir)
    extra = []
    spec2 = dict(spec)
    if meta["kind"] == "rapid":
        # the directory name is rapid's sanitised test name; run the tests whose sanitised name matches
        extra = ["-rapid.failfile=" + path]
        spec2["run"] = meta.get("run") or ("^" + meta["test_dir"].split("_")[0])
    for c0 in (spec.get("configs") or []):
        if c0.get("first") and c0["name"] != cfg["name"]:
            with open(os.path.join(WORK, "replay-build.log"), "a") as lg:
                b0 = build_all([dict(spec, configs=[c0])], lg)
            if all(ok for ok, _t in b0.values()):
                run_one(pid, dict(spec), c0, meta["shard"], int(meta["env"].get("VERIF_NSHARDS", "1")), meta["tier"], meta["seed"], outdir, None, None, 3600)
    files = None
    if meta["kind"] == "fuzz":
        files = {"testdata/fuzz/%s/%s" % (meta["fuzz"], meta["corpus_name"]): path}
        extra = ["-test.run=^%s$/^%s$" % (meta["fuzz"], meta["corpus_name"])]
    r = run_one(pid, spec2, cfg, meta["shard"], int(meta["env"].get("VERIF_NSHARDS", "1")), meta["tier"], meta["seed"], outdir, extra, None, 3600, files)
    sys.stdout.write(tail(r["log"], 60) + "\n")
    if r["rc"] != 0:
        print("VIOLATION property=%s replay=%s" % (pid, path))
        return 1
    print("replay passed (violation not reproduced on this tree)")
    return 0


# --------------------------------------------------------------------------- main

def setup():
    gen_build()
    os.makedirs(WORK, exist_ok=True)
    allspecs = []
    for pid, P in PROPS.items():
        allspecs += P["bins"]
    with open(os.path.join(WORK, "setup.log"), "w") as lg:
        res = build_all(allspecs, lg)
    bad = [k for k, (ok, _t) in res.items() if not ok]
    for k in bad:
        print("setup: build failed: %s\n%s" % (k, res[k][1][-1500:]))
    print("setup: built %d binaries, %d failed" % (len(res), len(bad)))
    return 0 if not bad else 2


def main(argv):
    if len(argv) >= 2 and argv[1] == "--setup":
        return setup()
    if len(argv) >= 3 and argv[1] == "--all":
        rc = 0
        for pid in PROPS:
            r = run_property(pid, argv[2], int(os.environ.get("VERIF_SEED", "1")))
            rc = max(rc, r)
        return rc
    if len(argv) < 3:
        print(__doc__)
        return 2
    pid = argv[1]
    if pid not in PROPS:
        print("unknown property " + pid)
        return 2
    if argv[2] == "--replay":
        return replay(pid, argv[3])
    tier = argv[2]
    if tier not in ("quick", "thorough"):
        print(__doc__)
        return 2
    seed = int(os.environ.get("VERIF_SEED", "1") or "1")
    return run_property(pid, tier, seed)


if __name__ == "__main__":
    sys.exit(main(sys.argv))
