# CPU_OFF and COMMON_ASSUME are injected by props.py
SPEC = {
    "bins": [
        {"name": "c17", "pkg": "./zz_verif/c17", "run": ".", "shards": {"quick": 1, "thorough": 16}},
        # the concurrent sub-check once more under the race detector (results are compared in both builds)
        {"name": "c17conc", "pkg": "./zz_verif/c17", "run": "^TestC17Concurrent$", "race": True, "shards": {"quick": 1, "thorough": 4}},
    ],
    "rule": "secret sharing: case = (group of P256/P384/P521/ristretto255, t, n with 0 <= t < n <= 8 (16 thorough), secret in {0,1,r-1,random}, "
            "identifiers 1..n via Share or distinct arbitrary non-zero scalars via ShareWithID, coefficient stream, dealer reusing one identifier scalar object in place or a fresh one per call, caller overwriting the scalars passed in and the returned share / commitment objects after the calls, up to 3 subsets S in drawn order, up to 3 altered shares) drawn by rapid. "
            "bad share at the combiner: case = (1024/1025-bit pool key, l in 2..8, k in 1..l, share list of drawn size and order, drawn positions first / last / middle / one / several / all) whose shares are replaced by shares decoded with SignShare.UnmarshalBinary from hostile encodings (xi in {0, zero-padded 0, 1, N-1, N, N+1, p, q, p*r, N+p, 2N, 2^k, all ones, random, honest, honest+N, bit flip, empty}; Index / Players / Threshold altered singly or consistently over the list; byte-level mutations of honest encodings); CombineSignShares must return an error or a signature that crypto/rsa verifies, never panic; mutated KeyShare encodings go through KeyShare.UnmarshalBinary and Sign. "
            "concurrent sub-check (ordinary and -race build): 8 goroutines behind a barrier deal with ONE SecretSharing value and by-value copies (Share, ShareWithID with distinct identifiers, Verify against one shared commitment, Recover), every dealt share compared with the reference polynomial; 8 goroutines sign 8 messages with ONE KeyShare per player (cached/uncached, blinded/unblinded) while one more goroutine keeps marshalling the same key shares (their encoding must stay the dealt one, during and after), and 8 goroutines combine ONE shared slice of signature shares, every result compared with crypto/rsa.SignPKCS1v15. "
            "non-trivial = a share list with a hostile share handled without panic, a concurrent run, a recovery whose subset is not the prefix {1..t+1} in order, or has more than t+1 shares, or uses non-sequential identifiers, or is an unqualified set (|S| <= t) that was refused, "
            "or an altered (value/identifier) share that is off the polynomial and was rejected. "
            "threshold RSA: case = (pool key, l in 2..30, k in 1..l, cached/uncached Deal, blinded/unblinded (parallel or not) Sign, PKCS#1 v1.5 or PSS padder with hash and salt mode, message, player subset of size >= k in drawn order, blinding chosen per signature), followed by a second message signed with the same KeyShare objects (other padding/blinding, in one third of the cases after a MarshalBinary/UnmarshalBinary round trip of the participating shares); "
            "then a third message for which the key shares (encodings from a cached deal, an uncached deal, or the live shares) and the signature shares are decoded into ONE reused KeyShare / SignShare object; keys include e = 257 variants of three pool keys; plus every k-subset of every (l,k) with 2 <= l <= 6 (119 subsets, ascending and one rotated order, and again for a second message on the same key shares). "
            "non-trivial = the subset is not the first k players in order, or has more than k players, or is a second-message round on key shares that have already signed, or is a (k-1)-subset that did not yield a verifying signature; "
            "distinct by FNV-64 of (sub-check, group or key, parameters, subset and order, alteration, secret or message)",
    "assumptions": COMMON_ASSUME + [
        "the harness does not own the Go scheduler: the concurrent sub-check relies on tight dealing loops behind a barrier plus the race detector; an interleaving that needs one precise preemption point may be missed",
        "group orders are taken from crypto/elliptic and RFC 9496; the reference interpolation is math/big Lagrange evaluation",
        "crypto/rsa VerifyPKCS1v15 / VerifyPSS / SignPKCS1v15 are the oracle for threshold RSA signatures; RSA keys come from a committed pool (1024, 1025, 1536, 2048 bit, one with safe primes), e = 65537 or 257",
        "a random top coefficient equal to zero (probability 1/r) is ignored",
    ],
    "budget": {"quick": 900, "thorough": 3600},
}

MANIFEST = {
    "technique": "property-based testing (rapid) over (t,n,secret,identifiers,subset,order,alteration) for Shamir/Feldman sharing on all four groups with a math/big Lagrange reference giving an exact accept/reject oracle for Verify; "
                 "property-based testing plus exhaustive k-subset enumeration (l <= 6) for Shoup threshold RSA with crypto/rsa as the verification oracle",
    "text": "Generated-input search. Secret sharing: every dealt share must lie on one polynomial of degree <= t with f(0) = secret (independent big-integer interpolation), must pass Verify against CommitSecret, "
            "an altered share (value, identifier, identifier 0, swapped, other share's parts, and the algebraically near ones: negated value / identifier, doubled, halved, inverted value, value + f(-id), f(id+1)) must be accepted by Verify exactly when it still lies on the polynomial and has a non-zero identifier, "
            "Recover must return the secret for every drawn subset of more than t shares in any order and an error (no panic) for every subset of at most t shares. "
            "Threshold RSA: for drawn (key, l, k, cache, blinding, padding, hash, salt mode, message) the partial signatures of any drawn subset of >= k distinct players in any order must combine to a signature that "
            "crypto/rsa verifies (and that equals crypto/rsa.SignPKCS1v15 byte for byte for PKCS#1 v1.5); k-1 players must not yield a verifying signature; the same key-share objects then sign a second message (optionally after a marshal round trip) and must combine again; all k-subsets are enumerated for l <= 6. "
            "Exploration is the right level: the quantifier ranges over parameters and subsets, each case has an exact oracle, and the defect found (inexact integer arithmetic) shows up only off the tested prefix subsets.",
    "note": "trusts math/big, crypto/elliptic group orders and crypto/rsa verification; duplicate identifiers (documented panic) and l = 1 (rejected by Deal) are outside the domain; "
            "RSA public exponents 65537 and 257 (Shoup's scheme needs e prime and larger than l); concurrency of KeyShare.Sign belongs to C11; never establishes absence",
}
