SPEC = {
    "bins": [
        {"name": "c11", "pkg": "./zz_verif/c11", "run": "^TestC11Seq", "shards": {"quick": 1, "thorough": 8}},
        {"name": "c11conc", "pkg": "./zz_verif/c11", "run": "^TestC11Conc", "race": True, "shards": {"quick": 4, "thorough": 16}},
        # the portable build has its own shared state (scalar fallbacks of the SIMD code): same plans under -tags purego
        {"name": "c11concpg", "pkg": "./zz_verif/c11", "run": "^TestC11Conc", "race": True, "configs": [{"name": "purego", "tags": ["purego"]}], "shards": {"quick": 4, "thorough": 8}},
        {"name": "c11cold", "pkg": "./zz_verif/c11cold", "run": "^TestC11Cold", "race": True, "shards": {"quick": 8, "thorough": 16}},
    ],
    "rule": "(a) sequential histories: rapid draws call sequences over a pool of library objects (group elements/scalars of the 4 groups, Goldilocks points/scalars, BLS12-381 G1/G2/scalars incl. pairings, FourQ points, "
            "polynomial / secret-sharing objects, P-384 big-integer API) with deliberate aliasing (receiver = operand, equal operands, operands returned by constructors) and 'decode into a used object' steps; every call is replayed on fresh objects decoded "
            "from the operands' model bytes, and after every step every pool object must serialise to its model and every constructor must return what it returned at process start; a table of key types (typed keys of every family, and every KEM / signature scheme through its scheme-level decoders) is decoded repeatedly into one object with uses in between, the source buffer overwritten after each decode, and compared with a fresh decode; OPRF requests are evaluated and finalized twice in every suite and mode with operand snapshots around each call. "
            "(b) concurrency (-race build): per plan a freshly unmarshalled key / scheme / suite is used by 2..16 goroutines behind a barrier (sign, verify, encapsulate, decapsulate, Public(), HPKE setup/open, OPRF evaluate/finalize, threshold-RSA Sign, table-based multiplications, separately constructed generators); "
            "each result must equal the same call made alone on an independent copy and the race detector must stay silent; 8 cold-start scenarios run in fresh processes in which the first use of a package (hpke, group, oprf, bls, kem, sign, xof/expander, curves) is made by 16 goroutines at once, so that lazily initialised package-level data is hit at the only moment it can race. non-trivial = history with an aliased call, a decode into a used object, a use between two decodes, or a concurrent plan; distinct by FNV-64 of the history / (plan kind, trial)",
    "assumptions": COMMON_ASSUME + ["the harness does not own the Go scheduler: an interleaving that needs one precise preemption point may be missed; race reports are attributed to the first circl function of the report",
                                    "decode(encode(x)) == x for the objects in the pool (that is property C09's subject)"],
    "budget": {"quick": 900, "thorough": 5400},
}
MANIFEST = {
    "technique": "stateful model-based property testing (rapid histories replayed on fresh objects, invariant after every step) plus race-detector stress of generated concurrency plans compared with sequential results",
    "text": "Sequential part: generated call histories with deliberate aliasing over object pools of each package; the model of each object is the canonical serialisation obtained by replaying every call on fresh objects, so any call that changes an operand other than its receiver, any constructor that hands out shared storage, and any decoder that does not fully overwrite its receiver shows up as a pool object or constructor whose serialisation drifts from the model. Concurrent part: read-only operations on freshly unmarshalled shared keys/schemes/suites run in 2..16 goroutines under the race detector and every result is compared with the sequential result on an independent copy. Exploration is the right level: histories and schedules are unbounded and the scheduler is not controlled.",
    "note": "schedule coverage is whatever the Go scheduler produces under stress (16 cores, barrier start, first use of lazily cached fields always concurrent); only keys, schemes, suites, tables and separately constructed values are shared, as the property states",
}
