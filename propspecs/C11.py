SPEC = {
    "bins": [
        {"name": "c11", "pkg": "./zz_verif/c11", "run": "^TestC11Seq", "shards": {"quick": 1, "thorough": 8}},
    ],
    "rule": "TODO",
    "assumptions": COMMON_ASSUME,
    "budget": {"quick": 900, "thorough": 5400},
}
MANIFEST = {"technique": "TODO", "text": "TODO", "note": "TODO"}
