# CPU_OFF and COMMON_ASSUME are injected by props.py
SPEC = {
    "bins": [
        {"name": "c05", "pkg": "./zz_verif/c05", "run": ".", "shards": {"quick": 4, "thorough": 16}},
        # the white-box field / scalar / decoding sub-checks also run on the other arithmetic back-ends: purego build and
        # GODEBUG cpu.* switches (legacy assembly of math/fp25519, math/fp448) — quick: default, all-off, purego; thorough: all six
        {"name": "c05-wb-ed25519", "pkg": "./sign/ed25519", "run": "^TestVerifC05", "whitebox": True, "configs": CPU_OFF,
         "quick_configs": ["default", "alloff", "purego"], "shards": {"quick": 1, "thorough": 4}},
        {"name": "c05-wb-goldilocks", "pkg": "./ecc/goldilocks", "run": "^TestVerifC05", "whitebox": True, "configs": CPU_OFF,
         "quick_configs": ["default", "alloff", "purego"], "shards": {"quick": 1, "thorough": 4}},
        # the enumeration of all small-order encodings as public key (black-box) on the same back-ends
        {"name": "c05-special", "pkg": "./zz_verif/c05", "run": "^TestC05Special$", "configs": [c for c in CPU_OFF if c["name"] in ("alloff", "purego")],
         "shards": {"quick": 1, "thorough": 1}},
    ],
    "rule": "sign/*: case = (variant, seed, message, context) with edge-biased seeds (all-zero, all-ones, single bit, counting, random), message lengths around the SHA-512/SHAKE block "
            "boundaries and context lengths {0,1,..,254,255}; non-trivial = the seed is an edge pattern, the message length is a block-boundary length or the context length is 1/254/255. "
            "verify/* and special/*: case = (variant, public key, message, signature, context) produced by a generator class (honest; S replaced by S+L, S+2L, L-1, L, 0, 2^k, all-ones, bits in the "
            "top octet; other message / context / sibling variant; bit flips; wrong lengths; contexts of 256..512 octets with the signature a wrapping length octet would produce; every small-order point "
            "in every encoding (canonical, y+p, x=0 with the sign bit, Ed448 last-octet junk) as A and/or R with a signature that satisfies the group equation under permissive decoding; honest Ed448 keys "
            "with junk in the low 7 bits of octet 56 and a signature computed over the junk encoding; mixed-order keys A+T; R+T; signatures made by the key holder for an altered encoding of R or A (sign bit, unused bits) with S solved for that transcript; "
            "the cross-variant matrix (signed in any variant of the curve under context {empty,1,255,drawn}, verified under {same, empty, 255, 256 octets}); random strings); non-trivial = every class except 'honest'. "
            "whitebox/*: case = operands of red512/reduceModOrder/calculateS/isLessThanOrder/fixedMult/doubleMult/pointR1.FromBytes and goldilocks Scalar.{FromBytes,Add,Sub,Mul,Neg,Red}/"
            "ScalarBaseMult/ScalarMult/CombinedMult/FromBytes; non-trivial = at least one operand is limb-structured (vlib.Limbs), near the group order, or of the form q*2^252+small / j*L+-small "
            "(not uniform); for the encoders (pointR1.ToBytes, goldilocks Point.ToBytes) a point whose x or y has two representatives below the element width. "
            "concurrent: 8 goroutines x rounds x (verify triples + 2 signatures) compared with the sequential results (counted as evaluations, schedule dependent). Distinct by FNV-64 of (sub-check, class, all byte strings of the case).",
    "assumptions": COMMON_ASSUME + [
        "crypto/ed25519 (Go standard library) is the byte-exact oracle for Ed25519, Ed25519ctx and Ed25519ph key generation and signing",
        "ref/edwards (math/big, written from RFC 8032 5.1/5.2, self-tested against the RFC 8032 section 7 vectors of all five variants, the Wycheproof Ed25519/Ed448 files and crypto/ed25519) is the oracle for Ed448/Ed448ph and for every verification verdict; "
        "its cofactorless equation uses k reduced modulo L, which only matters for keys outside the prime-order subgroup (the EITHER class, where nothing is asserted)",
        "x/crypto/sha3 SHAKE256 and crypto/sha512 are correct",
    ],
    "budget": {"quick": 900, "thorough": 3600},
}

MANIFEST = {
    "technique": "property-based testing (rapid): byte-exact differential against crypto/ed25519 and an independent math/big RFC 8032 reference (strict decoding, cofactorless and cofactored verdicts); "
                 "adversarial-encoding generator with forged group-equation-satisfying signatures; enumeration of all small-order encodings; white-box overlays comparing the scalar reduction, "
                 "scalar multiplication and decoding routines with math/big on limb-structured operands",
    "text": "Generated-input search. Signing: for edge-biased (seed, message, context) and all five variants the public key and the signature bytes from every circl entry point "
            "(Sign/SignPh/SignWithCtx, PrivateKey.Sign with options, GenerateKey from a reader) equal crypto/ed25519 (Ed25519*) or the big-integer RFC 8032 reference (Ed448*). Verification: each generated "
            "(public key, message, signature, context) triple is classified by the strict reference as MUST-REJECT (bad length, context > 255, A or R not the canonical encoding of a curve point, S >= L, cofactored equation fails), "
            "MUST-ACCEPT (cofactorless equation holds and A is in the prime-order subgroup) or EITHER; circl (specific Verify function and VerifyAny) must agree in the first two classes, the third is only counted. "
            "The triples include signatures forged to satisfy the group equation for small-order, non-canonical, junk-bit and mixed-order keys, so that each decoding / range rule is the only thing standing between the triple and acceptance. "
            "White-box overlays evaluate red512, reduceModOrder, calculateS, isLessThanOrder, fixedMult, doubleMult and the goldilocks scalar and point routines on limb-structured operands against math/big, which is what reaches the 2^-64..2^-125 carry paths. "
            "Exploration is the right level: the input space is astronomically large and the oracle is exact per case.",
    "note": "trusts crypto/ed25519, math/big, crypto/sha512 and x/crypto/sha3; the EITHER gap between the cofactorless and the cofactored equation is deliberately not asserted; "
            "a wrong hash-to-scalar reduction on an input that only a SHA-512 preimage could produce is reachable by the white-box overlays only; never establishes absence",
}
