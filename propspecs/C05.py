# CPU_OFF and COMMON_ASSUME are injected by props.py
SPEC = {
    "bins": [
        {"name": "c05", "pkg": "./zz_verif/c05", "run": ".", "shards": {"quick": 4, "thorough": 16}},
        {"name": "c05-wb-ed25519", "pkg": "./sign/ed25519", "run": "^TestVerifC05", "whitebox": True, "shards": {"quick": 1, "thorough": 8}},
        {"name": "c05-wb-goldilocks", "pkg": "./ecc/goldilocks", "run": "^TestVerifC05", "whitebox": True, "shards": {"quick": 1, "thorough": 8}},
    ],
    "rule": "TODO",
    "assumptions": COMMON_ASSUME,
    "budget": {"quick": 900, "thorough": 3600},
}

MANIFEST = {
    "technique": "TODO",
    "text": "TODO",
    "note": "TODO",
}
