SPEC = {
    "bins": [
        {"name": "c10a", "pkg": "./zz_verif/c10a", "run": ".", "shards": {"quick": 1, "thorough": 16}},
    ],
    "rule": "private development spec for the c10a binary of C10 (see C10.py)",
    "assumptions": COMMON_ASSUME,
    "budget": {"quick": 900, "thorough": 5400},
}

MANIFEST = {
    "technique": "property-based testing (rapid) with a format-aware mutator over a registry of decoding entry points, plus deterministic truncation/extension sweeps; oracle = the call returns (panic caught by recover); finding keys per (entry point, panic class)",
    "text": "private development spec (C10 area: sign, ecc, group, oprf, zk, secretsharing, tss/rsa)",
    "note": "deleted when the area is merged into C10.py",
}
