# CPU_OFF and COMMON_ASSUME are injected by props.py
SPEC = {
    "bins": [
        {"name": "c08", "pkg": "./zz_verif/c08", "run": ".", "shards": {"quick": 1, "thorough": 16}},
        # the concurrent plan (independent pairs, one goroutine each) once more under the race detector
        {"name": "c08race", "pkg": "./zz_verif/c08", "run": "^TestC08Concurrent$", "race": True, "shards": {"quick": 1, "thorough": 4}},
    ],
    "rule": "(every run also contains: 12 independent sealer/opener pairs used concurrently, each by its own goroutine, also in a -race build; a deterministic in-order sequence of 52 plaintext / aad lengths around 2^16 and 2^17 minus the tag length per AEAD) case = one operation history (rapid state machine, mean 40 steps quick / 200 thorough) over a sealer and its opener for one AEAD, started at a drawn "
            "sequence number (0, 1, 2^(8k)-d, 2^96-1-d, random with 0xff suffix) by rewriting the seq field of the marshalled contexts; several contexts per history, "
            "each with its own model counter: the pair moved to the start value, the fresh pair handed out by Sender/Receiver (seq 0), hand-made contexts of the two other AEADs "
            "with the same master key and base nonce, forks (marshal->unmarshal keeping the original) and further openers from the same Receiver with the same enc; "
            "actions Seal, Open next, Open stale/future/garbage/other-AEAD/forged-neighbour/forged-current, Export, restore, fork, setup-again. "
            "Plus a concurrent plan: 12 independent sealer/opener pairs (fresh and restored at structured sequence numbers, all AEADs), one goroutine per pair, 20 000 (thorough 100 000) messages each, "
            "every ciphertext compared with the independent AEAD under base_nonce XOR (start+i) and opened by the pair's opener; also built with -race. "
            "non-trivial = the history contains a failed open followed by a successful one, or an increment that carries over a byte boundary, or reaches the maximum "
            "sequence number, or a restore of the sealer between two seals; distinct by FNV-64 of (action log incl. start, key, base_nonce)",
    "assumptions": COMMON_ASSUME + [
        "crypto/cipher AES-GCM and x/crypto/chacha20poly1305 are the AEADs of RFC 9180; the expected ciphertext of the i-th seal is computed with them directly",
        "key, base_nonce and exporter_secret are read from the documented MarshalBinary layout (hpke/marshal.go); their derivation is C07's subject, not C08's",
    ],
    "budget": {"quick": 900, "thorough": 3600},
}

MANIFEST = {
    "technique": "model-based stateful property testing (rapid state machine): operation histories against a big-integer reference model of the sequence number, with the AEAD of every successful seal recomputed directly from stdlib / x/crypto",
    "text": "Random histories of Seal / Open (next, stale, future, garbage, harness-forged under neighbouring nonces) / Export / marshal-then-unmarshal over a sealer and its opener, "
            "started at sequence numbers around every byte boundary and at the top of the 96-bit range. The model keeps seqS and seqO as big integers: the i-th successful Seal must be "
            "byte-identical to AEAD.Seal(key, base_nonce XOR I2OSP(i), pt, aad) (this pins the nonce used, hence uniqueness), a failed Open leaves the marshalled sequence number unchanged, "
            "ciphertext i opens only as the i-th success, at 2^96-1 Seal and Open return an error and a nil slice and stay failed, and a restored context carries on exactly like the original. "
            "Exploration is the right level: the property quantifies over histories.",
    "note": "histories are bounded in length (mean 40 / 200 steps); contexts of different KEM/KDF are sampled but the property is independent of them; the empty-input panic of UnmarshalSealer/UnmarshalOpener belongs to C10 and is not fed here; never establishes absence",
}
