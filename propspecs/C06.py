# CPU_OFF and COMMON_ASSUME are injected by props.py
SPEC = {
    "bins": [
        {"name": "c06", "pkg": "./zz_verif/c06", "run": ".", "configs": CPU_OFF, "quick_configs": ["default"],
         "shards": {"quick": 2, "thorough": 4}},
        {"name": "c06-wb-x25519", "pkg": "./dh/x25519", "run": "^TestVerifC06", "whitebox": True, "shards": {"quick": 1, "thorough": 8}},
        {"name": "c06-wb-x448", "pkg": "./dh/x448", "run": "^TestVerifC06", "whitebox": True, "shards": {"quick": 1, "thorough": 8}},
    ],
    "rule": "TODO",
    "assumptions": COMMON_ASSUME,
    "budget": {"quick": 900, "thorough": 3600},
}

MANIFEST = {
    "technique": "TODO",
    "text": "TODO",
    "note": "TODO",
}
