# CPU_OFF and COMMON_ASSUME are injected by props.py
SPEC = {
    "bins": [
        # black-box: default, purego (generic Go) and all-off (legacy assembly) in the quick tier; all six configurations in the thorough tier
        {"name": "c06", "pkg": "./zz_verif/c06", "run": ".", "configs": CPU_OFF, "quick_configs": ["default", "purego", "alloff"],
         "shards": {"quick": 2, "thorough": 4}},
        # white-box: generic Go, legacy assembly and BMI2/ADX assembly side by side in one process
        {"name": "c06-wb-x25519", "pkg": "./dh/x25519", "run": "^TestVerifC06", "whitebox": True, "shards": {"quick": 1, "thorough": 8}},
        {"name": "c06-wb-x448", "pkg": "./dh/x448", "run": "^TestVerifC06", "whitebox": True, "shards": {"quick": 1, "thorough": 8}},
        # field level: Mul/Sqr of the two fields on the three back-ends with product-structured operands
        {"name": "c06-wb-fp25519", "pkg": "./math/fp25519", "run": "^TestVerifC06", "whitebox": True, "shards": {"quick": 1, "thorough": 4}},
        {"name": "c06-wb-fp448", "pkg": "./math/fp448", "run": "^TestVerifC06", "whitebox": True, "shards": {"quick": 1, "thorough": 4}},
    ],
    "rule": "shared/*: case = (scalar k, peer value u) with k from {0, 1, 2^254 resp. 2^447, all-ones, clamping-sensitive first/last octets, single bit, random} and u from "
            "{0, 1, p-1, p, p+1, the low-order values, their non-canonical aliases (+p where it fits, bit 255 for X25519), p+small, all-ones, small, near-p, limb-structured, twist points, curve points, "
            "random non-canonical, random}; non-trivial = k is not 'random' or u is not 'random'/'curve' (i.e. an edge, non-canonical, low-order or twist value). "
            "consequence/*: case = (KEM, key seed, encapsulation seed, u, operation in {decapsulate, encapsulate, auth-decapsulate}); non-trivial = u is an edge/low-order/non-canonical/twist value. "
            "whitebox/*.backends: (k, u) evaluated on generic Go, legacy assembly and BMI2/ADX assembly; non-trivial = u limb-structured, near p or next to a low-order value. "
            "whitebox/*.primitives: operands of ladderStep/diffAdd/double/mulA24 drawn by vlib.FieldOperand (limb edges, near-modulus, unreduced) or product-structured (ref/prodgen: the double-width product is chosen first, "
            "upper limbs at floor(m*2^64/38) and neighbours / all-ones / zero, factors found by integer square root or division, or x = 2^a +- 2^b +- small); non-trivial = at least one operand is not uniform. "
            "whitebox/fp*.products: (x, y) product-structured for Mul/Sqr of math/fp25519 and math/fp448 on the three back-ends; every case is non-trivial. "
            "shared/*, whitebox/*: a further value class sits next to a limb boundary, a power of two or a multiple of p (ref/prodgen.Boundary). "
            "shared/* also draws peer values built so that the result is tiny (two representatives below the output width: < 19 resp. < 2^224+1) and the scalars j*l+-1 whose public key is the base point. "
            "consequence/X-Wing: the decapsulated / encapsulated values are compared with an independent X-Wing reference for every u. "
            "whitebox/*.toAffine and whitebox/fp*.canonical: final reduction on values with two representatives (non-trivial = tiny value). "
            "shared/*: the output buffer is pre-filled with drawn garbage or aliases the public or the secret input. "
            "Distinct by FNV-64 of (sub-check, k, u, ...).",
    "assumptions": COMMON_ASSUME + [
        "X-Wing reference = ref/mlkem (ML-KEM-768) + ref/mont + x/crypto sha3, self-tested against the SHAKE128 digest of the specification's test-vectors.txt",
        "ref/mont (math/big ladder written from RFC 7748 section 5, self-tested against the RFC 7748 5.2 and 6 vectors and the 1/1000-iteration vectors) is the oracle for both functions; crypto/ecdh is a second oracle for X25519",
        "the generic back-end of the full ladder is evaluated through a 10-line copy of ladderMontgomery in the white-box overlay (checked at run time to agree with the package's own function); "
        "the field arithmetic of math/fp25519 and math/fp448 underneath toAffine follows that package's own dispatch (switched only by the GODEBUG/purego configurations of the thorough tier)",
    ],
    "budget": {"quick": 900, "thorough": 3600},
}

MANIFEST = {
    "technique": "property-based testing (rapid): differential against an independent math/big RFC 7748 ladder and crypto/ecdh on edge-biased (scalar, u) pairs; metamorphic agreement of both parties; "
                 "consequence checks on the KEMs built on the functions; white-box overlays running every case and every ladder primitive on the generic, legacy-assembly and BMI2/ADX back-ends in one process; "
                 "the black-box binary is repeated under purego and GODEBUG cpu.* switches in the thorough tier",
    "text": "Generated-input search over (k, u): Shared's output equals the reference function, the flag equals (output != 0), KeyGen equals the function at the base point (which pins the precomputed Joye-ladder table), "
            "both parties derive the same secret, and X25519 agrees with crypto/ecdh including the error on an all-zero result. u is biased to the values the property names: 0, 1, p-1, p, p+1, the order-8 values and "
            "their non-canonical aliases, 2^255-19+small, all-ones, twist points. Consequences: the five kem/hybrid X-schemes, HPKE DHKEM(X25519), DHKEM(X448) and X25519Kyber768Draft00 return an error from "
            "Decapsulate / Encapsulate / AuthDecapsulate exactly when the reference output is zero; X-Wing (kem/xwing and hpke) never does. White-box: each (k,u) and each of ladderStep, diffAdd, double, mulA24 "
            "with limb-structured operands is evaluated on the three back-ends (the assembly consults the package variable hasBmi2Adx, which the overlay flips) and compared with math/big, projectively where the result is a projective point. "
            "Exploration is the right level: 2^510 resp. 2^896 inputs, exact oracle per case.",
    "note": "trusts math/big and crypto/ecdh; arm64 back-ends cannot be executed on this machine; never establishes absence",
}
