# CPU_OFF and COMMON_ASSUME are injected by props.py
_ALT = [c for c in CPU_OFF if c["name"] in ("purego", "noavx2")]
SPEC = {
    "bins": [
        # black-box: internal/sha3, xof, xof/k12 (public constructor), simd/keccakf1600, expander, cipher/ascon
        {"name": "c15", "pkg": "./zz_verif/c15", "run": ".", "shards": {"quick": 1, "thorough": 16}},
        # white-box overlay in xof/k12: lanes in {1,2,4} through newDraft10 + bookkeeping invariant
        {"name": "c15k12", "pkg": "./xof/k12", "run": "^TestZZC15", "whitebox": True, "shards": {"quick": 1, "thorough": 16}},
        # quick tier also runs the cheap tests with GODEBUG=cpu.avx2=off: only there are the scalar x4/x2 fallbacks of
        # simd/keccakf1600 (StateX4.Permute -> permuteScalarX4) and K12's one-lane path of the public constructor executed
        # (-tags purego keeps IsEnabledX4() true and goes through permuteSIMDx4 = fallback with the turbo flag passed on)
        {"name": "c15na", "pkg": "./zz_verif/c15",
         "run": "^TestC15(_00Selftest|Permutations|ReusePerm|ReuseHash|OneShot|Split2|K12ManyChunks|Histories)$/^(sponge|xof|k12)$/^(TurboSHAKE128|TurboSHAKE256|K12D10|NewDraft10-ctx)$",
         "configs": [c for c in CPU_OFF if c["name"] == "noavx2"], "tiers": ["quick"], "shards": {"quick": 1}},
        # the portable byte-wise sponge I/O of internal/sha3 is only compiled under -tags appengine on amd64
        {"name": "c15ae", "pkg": "./zz_verif/c15",
         "run": "^TestC15(_00Selftest|Permutations|ReusePerm|ReuseHash|OneShot|Split2|K12ManyChunks|Histories)$/^(sponge|xof|k12)$/^(TurboSHAKE128|TurboSHAKE256|K12D10|NewDraft10-ctx)$",
         "configs": [{"name": "appengine", "tags": ["appengine"]}], "tiers": ["quick"], "shards": {"quick": 1}},
        {"name": "c15k12na", "pkg": "./xof/k12", "run": "^TestZZC15(_00Selftest|Histories|Split2)$", "whitebox": True,
         "configs": [c for c in CPU_OFF if c["name"] == "noavx2"], "tiers": ["quick"], "shards": {"quick": 1}},
        # shared-object concurrency (one ascon.Cipher / one Expander used by 8 goroutines, constructors from 8 goroutines) once more under
        # the race detector; the results are compared with the reference in both builds (the plain one runs inside c15)
        {"name": "c15conc", "pkg": "./zz_verif/c15", "run": "^TestC15(_00Selftest|Concurrent)$", "race": True, "shards": {"quick": 1, "thorough": 4}},
        # the same two binaries under -tags purego and GODEBUG=cpu.avx2=off (thorough tier only)
        {"name": "c15alt", "pkg": "./zz_verif/c15", "run": ".", "configs": _ALT, "tiers": ["thorough"], "shards": {"thorough": 4}},
        {"name": "c15k12alt", "pkg": "./xof/k12", "run": "^TestZZC15", "whitebox": True, "configs": _ALT, "tiers": ["thorough"], "shards": {"thorough": 4}},
    ],
    "rule": "case = one history (rapid t.Repeat over Write(chunk)/Read(n)/Clone/Reset/Sum on up to 4 live copies) of one of 14 hash/XOF entry points "
            "(+ K12 with lanes 1/2/4 white-box), one (length, split) pair of the two-chunk sweep, one 1/2/4-way permutation input, one expander call, or one Ascon (key, nonce, ad, pt, dst, alteration) tuple; concurrent sub-check (also built with -race): 8 goroutines behind a barrier use ONE ascon.Cipher per mode (Seal, Open genuine / in place, Open of a body with a concurrently opened message's tag, bit flip), ONE Expander per kind, and their own states from xof.ID.New / k12.NewDraft10(shared context) / StateX4, every result compared with the sequentially computed reference. "
            "non-trivial = a concurrent round; a later round on a reused object (re-Initialize of StateX2/X4 in every flag order with permutations in between; Reset + other message / chunking / TurboSHAKE domain byte on one hash or XOF object; later Seal/Open calls on one Cipher incl. after failed Opens; later Expand calls on one Expander); a checked Read/Sum whose lineage has >= 2 write chunks with a rate or 8192-byte boundary inside (or at the end of) a chunk, or a Clone/Reset in its lineage; "
            "a two-chunk sweep pair with 0 < split < length; a one-shot helper call on a message longer than one block; every permutation case; an expander call with an oversize DST or more than one output block; "
            "an Ascon case sealed/opened in place or appended to a non-empty dst, or an altered (key|nonce|ad|ct|tag) that was rejected. distinct by FNV-64 of the lineage's operation sequence (op kinds, lengths, data) resp. of the inputs",
    "assumptions": COMMON_ASSUME + [
        "ref/keccak (lane-level Keccak-p from FIPS 202, cross-checked at start-up against a bit-level Keccak-p, the Keccak-team ShortMsgKAT subset, x/crypto/sha3 and the RFC 9861 TurboSHAKE/KT128 vectors) defines TurboSHAKE and KangarooTwelve; circl's k12 package names draft -10, whose function is the KT128 of RFC 9861",
        "ref/ascon (table S-box, byte-level padding) validated on 429 NIST LWC KATs; ref/h2c validated on the RFC 9380 appendix K vectors",
        "BLAKE2X: circl wraps golang.org/x/crypto/blake2{b,s}, which is also the oracle, so only chunking/clone/reset independence is tested for it, not the BLAKE2X specification",
        "the harness does not own the Go scheduler: the concurrent sub-check relies on the race detector (schedule-independent for unsynchronised writes) plus overlapping loops; an interleaving that needs one precise preemption point may be missed by the result comparison",
        "arm64 NEON two-way permutation cannot be executed on this machine (x2 runs the scalar fallback on amd64)",
    ],
    "budget": {"quick": 600, "thorough": 3000},
}

MANIFEST = {
    "technique": "property-based testing (rapid): model-based Write/Read/Clone/Reset/Sum histories against independent reference streams (x/crypto/sha3, own Keccak-p/TurboSHAKE/KT128, RFC 9380 expanders, Ascon v1.2), deterministic two-chunk split sweep over the named lengths, lane-wise comparison of the 2/4-way permutations, Ascon seal/open/in-place/tamper relations; white-box K12 overlay for lanes 1/2/4; thorough tier repeats everything under -tags purego and cpu.avx2=off",
    "text": "Generated-input search. Each history keeps up to four live copies of a hash/XOF object (created by Clone, diverging independently), the model being (bytes absorbed, bytes squeezed); every Read must equal the corresponding slice of the reference stream, Sum must equal prefix||digest without disturbing the state, Reset must equal fresh. Write lengths are steered to the lengths the property names (rate-1, rate, rate+1, 8191..8193, k*8192+-1 for k<=9, shifted by the K12 customisation string) and read lengths to {0,1,rate+-1,2*rate+3,10000}. K12 is driven through the public constructor and, white-box, with 1, 2 and 4 lanes, with customisation strings of length 0,1,255,256,8189..8193,65536 and with 255..257 leaves so that length_encode sees a zero byte; the leaf/stalk counters are checked against the model after every step. The 2- and 4-way and scalar permutations are compared lane by lane with a Keccak-p written from FIPS 202. Expanders are compared with an RFC 9380 reference for DST lengths 0..9000 and lengths up to the maximum, and must refuse lengths beyond it. Ascon Seal must equal a specification-level reference; Open(Seal(x)) = x with nil/prefix/in-place destinations; every drawn single-bit change of key, nonce, ad, ciphertext or tag (thorough: all of them for 108 cases) and length changes must give (nil, error). Exploration is the appropriate level: the domain is all histories over all inputs, the oracle is exact.",
    "note": "never establishes absence; BLAKE2X is only tested for chunking/clone/reset independence (same library on both sides); Write-after-Read is documented to panic and is not part of any history; Sum is only exercised on the fixed-output SHA-3 states while absorbing; arm64 back-ends not executed",
}
