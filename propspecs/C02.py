SPEC = {
    "bins": [
        {"name": "c02", "pkg": "./zz_verif/c02", "run": ".", "shards": {"quick": 1, "thorough": 16}},
    ],
    "rule": "case = (scheme or variant, key seed, message, context, one alteration of pk / msg / ctx / mode / signature) drawn by rapid over the 10 schemes of sign/schemes, "
            "the 5 package-level Ed25519/Ed448 variants and BLS in both key groups incl. aggregates of 1..4 signers; message lengths at hash-block boundaries; "
            "alterations: signature bit flip, truncation (incl. by 1..64 bytes), 1..16 appended bytes, doubled, zeroed window, window holding an arithmetic progression (on the hint region of Dilithium-family signatures and elsewhere), random, S+L on every Edwards scalar, other key, message flip/truncate/extend, "
            "other context, context >= 256 bytes, other variant (pure/ph/ctx), bit-flipped or resized encoded public key, identity key; thorough adds every single-bit flip and every truncation length of one signature per scheme. "
            "non-trivial = an altered tuple was evaluated by the verifier (and rejected); distinct by FNV-64 of (scheme, alteration, message, signature, key/context identity)",
    "assumptions": COMMON_ASSUME + ["no accept/reject expectation is taken from circl itself: honest tuples must verify, altered ones must not"],
    "budget": {"quick": 900, "thorough": 3600},
}

MANIFEST = {
    "technique": "property-based testing (rapid): completeness + determinism + rejection of generated alterations (metamorphic) for 10 registered schemes, 5 EdDSA variants and BLS with aggregation; exhaustive bit-flip/truncation enumeration per scheme in the thorough tier",
    "text": "Generated-input search: every honest signature has the advertised size, is reproduced byte-for-byte by a second call and verifies (also under the re-unmarshalled public key); every generated alteration of signature, message, context, mode or public key makes verification return false without panicking. The alteration generator contains the shapes the existing tests never produce (appended bytes, truncations, S+L, wrong variant, over-long context). Exploration level: the space of alterations is unbounded; the thorough tier enumerates all single-bit flips and truncations of one signature per scheme completely.",
    "note": "a forged-by-chance signature (probability 2^-128 or less) would be a false alarm and is ignored; different-length public-key encodings that decode to the same key are not counted as 'other key' (canonicity of decoders is C09)",
}
