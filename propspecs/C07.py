# CPU_OFF and COMMON_ASSUME are injected by props.py
SPEC = {
    "bins": [
        {"name": "c07", "pkg": "./zz_verif/c07", "run": ".", "shards": {"quick": 1, "thorough": 16}},
        # a reduced grid (KEMs built on circl's own X25519 / X448 / Kyber arithmetic) on the other arithmetic back-ends
        {"name": "c07alt", "pkg": "./zz_verif/c07", "run": "^TestC07Alt$",
         "configs": [c for c in CPU_OFF if c["name"] != "default"], "quick_configs": ["purego", "alloff"], "shards": {"quick": 1, "thorough": 1}},
    ],
    "rule": "(a deterministic sweep of 52 plaintext / aad lengths around 2^8, 2^12, 2^16 and 2^17 minus the tag length per AEAD, and contexts restored at structured 96-bit sequence numbers, are part of every run) case = (KEM, KDF, AEAD, mode, ikmR, ikmS, ikmE, info, psk, psk_id, messages, exports, negative relation) drawn by rapid per KEM, "
            "plus one (thorough: four) deterministic pseudo-random case for each of the 252 KEM x KDF x AEAD x mode cells, plus the PSK-input table "
            "{nil, empty, non-empty}^2 x {PSK, AuthPSK} x {sender, receiver} and the re-used-object rows, plus the official vectors replayed on circl, "
            "plus sequences of 2..5 Setup* calls on one Sender and one Receiver object (drawn, and all 16 ordered pairs of modes per KEM), plus single-bit flips of one honest enc per KEM "
            "(all bits for P-256/384/521/X25519 and in the thorough tier; edges + the raw X25519 share + a sample otherwise); the encapsulation randomness is handed to Setup through "
            "readers that return whole, one-byte, half and random-chunk reads; in three quarters of the re-use sequences all []byte arguments live in one caller arena that is overwritten in place between calls; "
            "every byte slice the API returns (marshalled keys and contexts, enc, ciphertexts, plaintexts, exports) is copied and then overwritten in place by the harness before the objects are used again; "
            "for every KEM x mode cell Setup*(nil, ...) (randomness from crypto/rand) is checked against the reference receiver together with the nil / empty forms of info, pt, aad, exporter context and export lengths 0 and 255*Nh; "
            "in every grid / cell case copies of both contexts are restored (documented MarshalBinary layout) at a structured or random 96-bit sequence number and three further messages are compared with the reference; "
            "a reduced grid (X25519, X448, both hybrids, P-256) also runs on the purego build and with cpu.avx2/bmi2/adx switched off (quick: purego and all-off). "
            "non-trivial = the case's mode is not base, or it is a negative relation (receiver differing in exactly one of skR/info/psk/psk_id/mode/pkS), "
            "or an asserted row of the PSK table, or an official vector, or a re-use sequence with two different modes, or an altered enc; distinct by FNV-64 of (sub-check, suite, mode, all inputs, relation)",
    "assumptions": COMMON_ASSUME + [
        "the reference zz_verif/ref/hpke follows RFC 9180; it is pinned by official vectors for base mode (X25519, P-256, P-521; SHA-256/512; all AEADs), "
        "PSK mode (key schedule, via the X25519Kyber768Draft00 vectors) and X-Wing; auth modes, P-384, X448-DHKEM and HKDF-SHA384 are pinned by the RFC text, "
        "RFC 7748 vectors for the X448 ladder and the shared code paths only",
        "the Kyber768 / ML-KEM-768 component of the two hybrid KEMs comes from zz_verif/ref/mlkem (ACVP-validated)",
    ],
    "budget": {"quick": 900, "thorough": 3600},
}

MANIFEST = {
    "technique": "property-based testing (rapid) against an independent RFC 9180 reference implementation: differential comparison of enc, key, base_nonce, exporter_secret, every ciphertext and export; cross-opening; negative metamorphic relations; decision-table test of the PSK-input rules; official vector replay",
    "text": "Generated-input search over suites, modes and inputs: circl's HPKE is run side by side with a reference written from the RFC text "
            "(validated at start-up against the RFC 9180 vectors of the Go 1.26 tree, the HPKE-PQ X-Wing vector, the X25519Kyber768Draft00 vectors, the X-Wing "
            "specification vectors and RFC 7748). Every value the RFC defines is compared byte for byte (secrets are read from the documented MarshalBinary layout), "
            "both implementations open each other's messages, a receiver differing in exactly one parameter must neither open nor export the same value, and the "
            "PSK-input table of RFC 9180 section 5.1 is asserted on its unambiguous rows (nil / non-empty). Exploration is the right level: the input space is unbounded and the oracle is exact per case.",
    "note": "auth modes of the reference are pinned by the RFC text only (no official auth vectors available offline); empty-but-non-nil PSK inputs are counted, not asserted; "
            "Export beyond 255*Nh panics by documentation and is exempt; the rejection-sampling branch of DeriveKeyPair (probability <= 2^-32) is not reached; never establishes absence",
}
