SPEC = {
    "bins": [
        {"name": "c10", "pkg": "./zz_verif/c10", "run": "^Test", "shards": {"quick": 1, "thorough": 16}},
        {"name": "c10a", "pkg": "./zz_verif/c10a", "run": "^Test", "shards": {"quick": 1, "thorough": 16}},
        {"name": "c10b", "pkg": "./zz_verif/c10b", "run": "^Test", "shards": {"quick": 1, "thorough": 16}},
        {"name": "c10fuzz", "pkg": "./zz_verif/c10", "fuzz": "FuzzC10", "fuzztime": "60s", "tiers": ["thorough"], "shards": {"thorough": 1}},
        {"name": "c10bfuzz", "pkg": "./zz_verif/c10b", "fuzz": "FuzzC10", "fuzztime": "60s", "tiers": ["thorough"], "shards": {"thorough": 1}},
        {"name": "c10afuzz", "pkg": "./zz_verif/c10a", "fuzz": "FuzzC10", "fuzztime": "60s", "tiers": ["thorough"], "shards": {"thorough": 1}},
    ],
    "rule": "case = (decoding entry point, input) where the input is a format-aware mutation of a valid encoding (bit flip, every-prefix truncation, appended bytes, overwritten windows, "
            "length-prefix fields set to 0 / max / remaining±1, doubled, empty, one byte, exp±1, exp±16) or a raw string at lengths {0,1,2,exp-16,exp-1,exp,exp+1,exp+16,2·exp}; entry points with a documented "
            "fixed-length panic receive hostile content of exactly that length only; a deterministic sweep adds all 256 one-byte inputs, the empty input, every prefix of every valid encoding (strided in quick) and 1..16 appended bytes. "
            "non-trivial = every evaluated input (all inputs are hostile by construction; unmodified valid encodings are only used in the registry self-test); distinct by FNV-64 of (entry, input)",
    "assumptions": COMMON_ASSUME + ["a recover() around each call observes every Go panic incl. runtime errors; non-termination would only be seen as the driver's budget being exceeded (exit 2, inconclusive)"],
    "budget": {"quick": 900, "thorough": 5400},
}

MANIFEST = {
    "technique": "property-based testing (rapid) with a format-aware mutator over a registry of decoding entry points, plus deterministic truncation/extension sweeps; oracle = the call returns (panic caught by recover); finding keys per (entry point, panic class)",
    "text": "Generated-input search over every registered untrusted-input entry point of the public API (unmarshalling, verification, decapsulation, HPKE receiver setup and open, CP-ABE decryption and policy parsing, PEM/PKIX parsing, proof and share decoding): each call must return an error/false/value for every input of every length. The validity predicate is 'no panic'; known panics are keyed by (entry point, panic class) so that new ones are still reported. Exploration is the right level: the input space is all byte strings; the sweep part enumerates truncations and small extensions completely.",
    "note": "documented fixed-length preconditions are honoured (exact-length hostile content only); time budgets are never reported as violations; the registry is hand-built from the exported API (Appendix A of DESIGN.md)",
}
