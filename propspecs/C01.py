# CPU_OFF and COMMON_ASSUME are injected by props.py
SPEC = {
    "bins": [
        {"name": "c01", "pkg": "./zz_verif/c01", "run": ".", "shards": {"quick": 1, "thorough": 16}},
        # the same relations on the other arithmetic back-ends (the generated cases are cheap; the sweep stays on the default one)
        {"name": "c01alt", "pkg": "./zz_verif/c01", "run": "^TestC01$",
         "configs": [c for c in CPU_OFF if c["name"] != "default"], "quick_configs": ["purego", "alloff"], "shards": {"quick": 1, "thorough": 2}},
    ],
    "rule": "case = (scheme, key seed, encapsulation seed, alteration) drawn by rapid from edge-biased seeds over all 21 KEM schemes "
            "(kem/schemes.All() + the two HPKE-only hybrids); alterations = bit flips, short edits, all-zero / all-one ciphertexts, a valid ciphertext for another key or seed, non-canonical aliases of the X25519/X448 share and special field values (small order, p, p+-1) in its place; "
            "every honest and altered ciphertext is also decapsulated with the typed DecapsulateTo into buffers that hold the honest secret, a constant, or the head of the ciphertext buffer; a concurrent sub-check uses one key pair from 2..6 goroutines while 1..2 others serialise it; "
            "every single-bit flip of one honest ciphertext per scheme is enumerated. "
            "non-trivial = the case contains an altered ciphertext whose decapsulation returned without error (FO/implicit-rejection or combiner path exercised), "
            "a marshal/unmarshal round trip, or a wrong-sender auth decapsulation; distinct by FNV-64 of (sub-check, seeds, alteration, ciphertext)",
    "assumptions": COMMON_ASSUME + ["x/crypto/sha3 SHAKE256/SHA3-256 used to recompute the ML-KEM / Kyber rejection secret"],
    "budget": {"quick": 900, "thorough": 3600},
}

MANIFEST = {
    "technique": "property-based testing (rapid): round-trip, determinism and tamper metamorphic relations over all 21 KEM schemes; exhaustive single-bit-flip enumeration in the thorough tier; implicit-rejection secret recomputed with x/crypto SHAKE256",
    "text": "Generated-input search over (scheme, key seed, encapsulation seed, alteration) with edge-biased seeds: decapsulation inverts encapsulation, derivation/encapsulation/decapsulation are pure functions, sizes match, marshal round trips behave identically, and no altered ciphertext decapsulates to the honest secret unless only non-canonical bits of a raw X25519/X448 share changed; implicit-rejection secrets of ML-KEM/Kyber are compared with J(z||c) computed independently. Exploration is the right level: the domain (all seeds x all alterations) is astronomically large and the oracle is exact per case.",
    "note": "trusts x/crypto/sha3 and math/big for the reference values; 'bound' classification of raw X-share bytes follows RFC 7748 canonicalisation computed with math/big; never establishes absence",
}
