# CPU_OFF and COMMON_ASSUME are injected by props.py
SPEC = {
    "bins": [
        {"name": "c19", "pkg": "./zz_verif/c19", "run": ".", "shards": {"quick": 1, "thorough": 16}},
        # the concurrent sub-check once more under the race detector (results are compared in both builds)
        {"name": "c19conc", "pkg": "./zz_verif/c19", "run": "^TestC19Concurrent$", "race": True, "shards": {"quick": 1, "thorough": 4}},
        {"name": "c19wb-count", "pkg": "./vdaf/prio3/count", "run": "^TestVerifC19", "whitebox": True, "shards": {"quick": 1, "thorough": 2}},
        {"name": "c19wb-sum", "pkg": "./vdaf/prio3/sum", "run": "^TestVerifC19", "whitebox": True, "shards": {"quick": 1, "thorough": 4}},
        {"name": "c19wb-sumvec", "pkg": "./vdaf/prio3/sumvec", "run": "^TestVerifC19", "whitebox": True, "shards": {"quick": 1, "thorough": 4}},
        {"name": "c19wb-histogram", "pkg": "./vdaf/prio3/histogram", "run": "^TestVerifC19", "whitebox": True, "shards": {"quick": 1, "thorough": 4}},
        {"name": "c19wb-mhcv", "pkg": "./vdaf/prio3/mhcv", "run": "^TestVerifC19", "whitebox": True, "shards": {"quick": 1, "thorough": 4}},
    ],
    "rule": "batch case = (instance in {Count, Sum, SumVec, Histogram, MultihotCountVec}, admissible parameters [Sum bound from {0,1,2,255,2^32,2^62,2^63-1}, 2^k-1/2^k/2^k+1 or random < 2^63; "
            "SumVec length x bits (0..64) x chunk; Histogram length x chunk; MultihotCountVec length x max weight (0..length) x chunk; chunk lengths 1, sqrt, dividing, non-dividing, = total, > total], "
            "context, 2/3/16/4..15 aggregators (255/254/128/17 in the thorough tier), verify key, 1..8 valid measurements incl. the extremes with edge-biased nonces and sharding randomness, "
            "0..3 altered reports and 0..1 invalid measurements interleaved with the valid ones), every message crossing the aggregator boundary in marshalled form; "
            "constructor case = (instance, one of the three named degenerate arguments [chunk length 0, 0 or 1 aggregators, Sum bound >= 2^63], otherwise admissible parameters); "
            "structured case = one honest report, then every element of the leader share and of one prep share changed by an element whose Montgomery form is zero outside one bit window, for every window. "
            "concurrent rounds (both tiers, also as a -race binary): 20 goroutines behind a barrier, 12 with their own instance (all five types, different parameters) and 8 sharing three objects under a lock, each running whole pipelines (honest, altered proof element, altered nonce); every message, decision and aggregate must equal the sequential run with the same inputs. "
            "codec points (both tiers): in every element-carrying message type of every instance the first / middle / last element set to 0, 1, 2, p-2, p-1 (must decode, re-marshal identically and be usable in the next step) and to p, p+1, 2^n-1, all-0xFF (must be refused). "
            "overflow points (both tiers): SumVec with 63/64-bit entries, every position in turn driven past 2^64 (error expected) and to exactly 2^64-1 (exact value expected). "
            "deterministic points (both tiers): one honest report per instance with 127/128/129/200/255 aggregators and RAND_SIZE = 32*SHARES (x2 with joint randomness); one honest report with 2 aggregators at the smallest value of every parameter (incl. the zero-bit instances), at every Sum bit width 1..63 and at 2^j-1 and 2^j gadget calls for j = 1..11 (NTT sizes up to 2^13) for SumVec, Histogram and MultihotCountVec. "
            "white-box case = (instance parameters, valid encoded measurement, 0 or 1 invalidating edit, 1/2/3/16 shares) proved, shared, queried and decided directly on the FLP. "
            "non-trivial = batch with more than two aggregators or an extreme measurement; an altered report or invalid measurement that was evaluated (and refused); a degenerate constructor call; a white-box FLP decision. "
            "distinct by FNV-64 of (sub-check, instance description, measurements, nonces, randomness, verify key, alteration label)",
    "assumptions": COMMON_ASSUME + [
        "the harness does not own the Go scheduler: an interleaving that needs one precise preemption point may be missed; one instance object is only shared with the calls serialised (the types are not documented as safe for concurrent use)",
        "soundness error of the proof system (at most about 2*1024/2^64 per altered report for the 64-bit field, far less for the 128-bit field) is ignored: an altered report accepted by chance would be a false alarm",
        "'rejected' means: a decoder refuses the bytes, or PrepInit / PrepSharesToPrep / PrepNext returns an error at one aggregator at least (such a report is dropped by all); the classes are counted separately",
        "nonces are unique per report and helper seeds are not reused across reports when a share of one report is spliced into another (otherwise the splice is a replay of a valid report and nothing is asserted)",
        "ref/prio3xof (XofTurboShake128 and the share / joint-randomness derivations, on ref/keccak + math/big) is validated against the draft's XofTurboShake128, Prio3Sum_1 and Prio3Histogram_1 vectors and RFC 9861",
    ],
    "budget": {"quick": 900, "thorough": 3600},
}

MANIFEST = {
    "technique": "property-based testing (rapid) against a plain-integer model: whole Prio3 runs (shard, prepare at every aggregator, aggregate, unshard) for all five instances with every message marshalled and "
                 "unmarshalled between the parties; metamorphic rejection of format-aware single-field alterations of every message; enumeration-by-generation of the three degenerate constructor arguments; "
                 "share and joint-randomness derivations recomputed with an independent XofTurboShake128 reference; white-box FLP soundness/completeness runs with a proof consistent with an invalid measurement",
    "text": "Generated-input search. (R) For generated parameters, 2..16 (thorough: up to 255) aggregators, verify keys and batches of 1..8 valid measurements, Unshard must equal the aggregate computed with plain integers "
            "(when it is below the modulus; if a position is below the modulus but does not fit 64 bits Unshard must return an error, never another value); per report the output shares must add up to the measurement; the same batch run on Go values without marshalling must agree; leader share + specified helper "
            "expansions must equal the specified encoding, public share and prep message must equal the specified joint-randomness parts and seed (reference: ref/prio3xof). Constructors must return an error - neither "
            "panic nor succeed - for chunk length 0, fewer than two aggregators, or a Sum bound >= 2^63, and must succeed on admissible parameters. (M) Reports altered in one field (leader measurement / proof element, "
            "blind, helper seed, swapped / copied / foreign shares, public-share part, nonce at one aggregator, nonce everywhere for joint-randomness instances, prep-share element / joint-randomness part, prep message, "
            "any length change, and edits making the sum of shares a non-bit, out-of-range, two-hot, zero-hot or over-weight measurement) must be refused during preparation and the aggregate of the remaining reports "
            "must be unchanged; invalid measurements drawn from the exact boundary of every documented range (max+1, max+2, 2^bits, length, length+1, weight maxWeight+1, wrong vector length, …) must be refused by Shard with an error - never a panic - or rejected in preparation. (I) marshal(unmarshal(b)) == b for every message type at every step, with the source buffer overwritten right after every unmarshal and the measurement / nonce / randomness / verify key / context buffers overwritten right after the call that took them (no result may alias a caller buffer); every API call leaves its operands unchanged (re-marshalled after the call) and a repeated call on the same operands returns the same result (Unshard always, the others in a third of the cases); a running aggregation collected half way, extended and collected twice agrees with the model; interleaved histories on one instance (per-report steps of all valid reports, an altered and an abandoned one in drawn orders: all PrepInit first, staggered, reverse completion, shuffled) leave every prep state / share / message object of the other reports unchanged and give the sequential verdicts and aggregate. "
            "White box, the validity circuit of each instance must accept every valid and refuse every invalidated encoded measurement when the proof is generated for that very measurement (element index biased to the last chunk). "
            "Exploration is the right level: the domain (parameters x batches x randomness x alterations) is unbounded and the oracle is exact per case.",
    "note": "trusts math/big, ref/keccak and ref/prio3xof (self-tested against the draft's vectors and RFC 9861); statistical soundness error of the FLP is ignored; "
            "not asserted, only counted: a nonce changed consistently at all aggregators for Count/Sum, a public-share part altered only for the aggregator that owns it (the draft lets it be overwritten), "
            "splices between reports that share a nonce or helper seeds, aggregates >= 2^64 or >= the modulus, "
            "the proof share's additive consistency is only covered through verification, not recomputed; never establishes absence",
}
