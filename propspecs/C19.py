# CPU_OFF and COMMON_ASSUME are injected by props.py
SPEC = {
    "bins": [
        {"name": "c19", "pkg": "./zz_verif/c19", "run": ".", "shards": {"quick": 1, "thorough": 16}},
        {"name": "c19wb-count", "pkg": "./vdaf/prio3/count", "run": "^TestVerifC19", "whitebox": True, "shards": {"quick": 1, "thorough": 2}},
        {"name": "c19wb-sum", "pkg": "./vdaf/prio3/sum", "run": "^TestVerifC19", "whitebox": True, "shards": {"quick": 1, "thorough": 4}},
        {"name": "c19wb-sumvec", "pkg": "./vdaf/prio3/sumvec", "run": "^TestVerifC19", "whitebox": True, "shards": {"quick": 1, "thorough": 4}},
        {"name": "c19wb-histogram", "pkg": "./vdaf/prio3/histogram", "run": "^TestVerifC19", "whitebox": True, "shards": {"quick": 1, "thorough": 4}},
        {"name": "c19wb-mhcv", "pkg": "./vdaf/prio3/mhcv", "run": "^TestVerifC19", "whitebox": True, "shards": {"quick": 1, "thorough": 4}},
    ],
    "rule": "TODO",
    "assumptions": COMMON_ASSUME,
    "budget": {"quick": 900, "thorough": 3600},
}

MANIFEST = {
    "technique": "TODO",
    "text": "TODO",
    "note": "TODO",
}
