# CPU_OFF and COMMON_ASSUME are injected by props.py
SPEC = {
    "bins": [
        {"name": "c20", "pkg": "./zz_verif/c20", "run": "^(TestC20(Predicates|Marshal|Cycle|AllBitFlips|Soup|Golden|RefSelftest|Reuse|Lengths|LongNames|Identifiers|IdentSweep)|FuzzC20)", "shards": {"quick": 4, "thorough": 16}},
        {"name": "c20conc", "pkg": "./zz_verif/c20", "run": "^TestC20Conc$", "shards": {"quick": 1, "thorough": 4}},
        {"name": "c20concrace", "pkg": "./zz_verif/c20", "run": "^TestC20Conc$", "race": True, "shards": {"quick": 1, "thorough": 2}},
        {"name": "c20fuzz", "pkg": "./zz_verif/c20", "fuzz": "FuzzC20PolicyFromString", "fuzztime": "45s", "tiers": ["thorough"], "shards": {"thorough": 1}},
        {"name": "c20wb", "pkg": "./abe/cpabe/tkn20/internal/tkn", "run": "^TestC20", "whitebox": True, "shards": {"quick": 1, "thorough": 4}},
    ],
    "rule": "predicates: case = (generated formula with <= 6 leaves / depth <= 4 over labels {a,b,c,d} x values {0,1,2}, one random textual form, "
            "one of ALL 256 assignments label -> absent|0|1|2); evaluations count (formula, assignment) pairs. cycle: case = (formula, text, message of length "
            "{0,1,31,32,33,1000}, encryption randomness, a stratified choice of assignments containing a satisfying and a non-satisfying one whenever both exist, "
            "ciphertext layout current|legacy, bit alterations stratified by ciphertext region). "
            "non-trivial (predicates/*, cycle/decrypt-*, cycle/extract) = the formula contains a negation or a repeated label AND the assignment lacks a label the formula mentions or makes the verdict false; "
            "non-trivial (cycle/bitflip-*) = altered ciphertext handed to a key that decrypts the unaltered one; marshal/golden/soup = a completed round trip; "
            "non-trivial (whitebox/share*) = a non-empty wire set that does not satisfy the formula; "
            "distinct by FNV-64 of (sub-check, canonical formula, assignment number, layout, message length) resp. (ciphertext hash, altered bits)",
    "assumptions": COMMON_ASSUME + [
        "the harness does not own the Go scheduler: the concurrent sub-check sees the interleavings that 7-14 goroutines behind a barrier produce, an interleaving that needs one precise preemption point may be missed",
        "the reference evaluator zz_verif/ref/abe states the scheme's semantics (NNF by De Morgan; positive leaf = present and equal, negated leaf = present and different); two independently written evaluators are cross-checked on every case",
        "x/crypto/blake2b recomputes the Boneh-Katz id / MAC key / tag when a ciphertext is transcoded into the legacy (v1.3.7) layout; the transcoder is validated byte-for-byte against testdata/ciphertext_v137",
        "operator precedence of the policy language is not > and > or with left-associative binary operators (as implemented by internal/dsl/parser.go and used by its tests); the generator only omits parentheses that this precedence makes redundant",
    ],
    "budget": {"quick": 900, "thorough": 3600},
}

MANIFEST = {
    "technique": "property-based testing (rapid): recursive-grammar generator of policy formulas and of their textual forms, exhaustive enumeration of all 256 attribute assignments per formula against an independent reference evaluator (zz_verif/ref/abe), full Setup/Encrypt/KeyGen/Decrypt cycles on a stratified choice of assignments in both ciphertext layouts, single-bit alteration metamorphic relation (exhaustive over one ciphertext per layout in the thorough tier), marshal and print/parse round trips, golden-file cross-check; white-box binary: linear-algebra test (Gaussian elimination mod r over repeated sharings) that a wire set determines the shared secret iff it satisfies the formula",
    "text": "Generated-input search. For every generated formula (leaf | and | or | not, <= 6 leaves, depth <= 4, repeated labels and nested negation frequent, random redundant parentheses and blanks) "
            "Policy.FromString must accept it and Policy.Satisfaction must equal the reference verdict on each of the 256 assignments over {a,b,c,d} x {absent,0,1,2}; extra attributes must not matter; "
            "String() must be in the policy language (reference parser), equivalent to the formula, and FromString(String()) equivalent again. Full cycles (Setup once per process from a deterministic reader): "
            "Attributes.CouldDecrypt, 'Decrypt succeeds and returns exactly the message' and the policy extracted from the ciphertext must all agree with the reference on a satisfying and a non-satisfying "
            "(preferably near-miss) assignment per formula, for message lengths {0,1,31,32,33,1000}, with original and unmarshalled public / system / attribute keys, in the current layout and in the legacy layout "
            "(transcoded by the harness with the known Boneh-Katz seed; transcoder validated against testdata/ciphertext_v137). No same-length alteration of a ciphertext may decrypt to a different message; panics on single-bit "
            "alterations are reported, other panics only counted (they belong to C10). White-box (internal/tkn): Formula.share is run n+3 times per generated monotone formula, with and without the Boneh-Katz gate of insertAnd; "
            "for every subset of input wires a fixed linear combination of its shares may reproduce the secret in all runs iff the subset satisfies the formula, and five concrete unauthorised keys must not open the envelope by running decapsulate on a reduced header. Object reuse: one Attributes object refilled by FromMap with a sequence of maps that lose labels, one Policy object refilled by FromString / ExtractFromCiphertext, one AttributeKey object unmarshalled twice — every predicate (Satisfaction, CouldDecrypt, KeyGen->Decrypt, String in both orders) is compared with the reference for the LAST input only. Length fields: message lengths that put the envelope / MAC data at 2^15 and 2^16 (and the legacy maximum 2^16-1) +-1, and labels / values / serialised policy / header at 2^15 and the u16 maximum +-1, in both layouts, through Decrypt / CouldDecrypt / ExtractFromCiphertext with a satisfying and a non-satisfying key. Concurrency (plain and -race builds): 7-14 goroutines behind a barrier run Encrypt / KeyGen on a shared PublicKey / SystemSecretKey and on those of an independent Setup, Decrypt with shared attribute keys, CouldDecrypt, ExtractFromCiphertext and policy operations (Satisfaction only on per-goroutine Policy objects); afterwards every result must equal the same call made alone with the same deterministic reader, and every ciphertext x key pair made during the run must give the reference verdict. Exploration is the right level: the formula x assignment x randomness space is unbounded while the oracle is exact per case.",
    "note": "trusts the hand-written reference evaluator/parser (cross-checked: two evaluators, renderer vs parser, repository policies.json cases) and x/crypto/blake2b; assignments are exhaustive only over the 4x3 alphabet; full cycles sample a few assignments per formula; an altered ciphertext that an UNauthorised key decrypts to the original message would only be counted (class + note), since the property text does not forbid it; the native fuzz target FuzzC20PolicyFromString exists but is not run by the driver; never establishes absence",
}
