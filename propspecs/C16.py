# CPU_OFF and COMMON_ASSUME are injected by props.py
SPEC = {
    "bins": [
        {"name": "c16", "pkg": "./zz_verif/c16", "run": ".", "shards": {"quick": 1, "thorough": 16}},
    ],
    "rule": "TODO",
    "assumptions": COMMON_ASSUME + [],
    "budget": {"quick": 900, "thorough": 3600},
}

MANIFEST = {
    "technique": "TODO",
    "text": "TODO",
    "note": "TODO",
}
