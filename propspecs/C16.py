# CPU_OFF and COMMON_ASSUME are injected by props.py
SPEC = {
    "bins": [
        {"name": "c16", "pkg": "./zz_verif/c16", "run": ".", "shards": {"quick": 1, "thorough": 16}},
        {"name": "c16wb-qndleq", "pkg": "./zk/qndleq", "run": "^TestC16WB", "whitebox": True, "shards": {"quick": 1, "thorough": 2}},
        {"name": "c16wb-dl", "pkg": "./zk/dl", "run": "^TestC16WB", "whitebox": True, "shards": {"quick": 1, "thorough": 2}},
    ],
    "rule": "case = one rapid-drawn tuple per sub-check. oprf: (suite in 4, mode in 3, key from DeriveKey(seed,info) / GenerateKey(reader) / "
            "an unmarshalled edge scalar, batch of 1..5 inputs of lengths {0,1,100,1000,random}, info, two explicit blind vectors) plus 2..4 "
            "single-component alterations in the verifiable modes; dleq: (group, hash, DST, k, A, batch of 1..4 B_i, prover randomness), 2..4 "
            "alterations, one statement false by construction with up to 11 candidate proofs and, at every batch position, the false statement "
            "B_j = identity, kB_j != identity with 5 candidate proofs; oprf verifiable modes also run a zero blind through DeterministicBlind and replace that evaluated element; dl: (group, G, k, userID, otherInfo, reader), 3..5 "
            "alterations, up to 8 witness-free proofs and 3 proofs that re-solve the verification equation for A or G with the honest challenge "
            "(recovered from the re-drawn nonce; white-box: calcChallenge with a dummy in place of A, G or V); qndleq: (two safe primes from a committed pool of 14, squares g and h, exponent, security "
            "parameter), 3..5 alterations, one false statement with 26..27 candidate proofs and one statement whose gx and hx are both non-units (0, N, p, q, k·p) with 27 candidate proofs incl. C recomputed for degenerate commitments (black-box through a replica of the challenge calibrated on the honest proof; white-box through doChallenge); simot: (group, choice bit, equal-length message pair) followed by 1..3 further transfers on the same Sender/Receiver objects. "
            "In a third of the oprf cases the key is decoded into a PrivateKey object that already held another key; qndleq proofs also carry boundary values of SecParam (top of the uint range, 2^k and 2^k±1). "
            "Half of the oprf cases use one client and one server object for every call, half run a buffer-reuse scenario (info, inputs and blinds rewritten in place and handed to the same objects again); "
            "oprf-lengths compares DeriveKey and FullEvaluate with the reference at field lengths 0,1,255..257,511..513,65534,65535 in every suite and mode; qndleq exponents range over [0,N), [N,N+5], k*N+x0, |N|+384 bits and negative values. "
            "Every call is wrapped in an operands-unchanged check (scalars, elements, integers and byte slices snapshotted before, compared after) and secrets are used for a second proof; dleq-large-batch proves batches of 255..258, 300, 513 pairs against the reference. "
            "non-trivial = the evaluated case contains an alteration, a false statement, a degenerate/forged proof, a second blind vector, a boundary-length comparison with the reference, a caller buffer rewritten in place, or an OT "
            "run with swapped ciphertexts (honest-only evaluations are counted as evaluations but not as non-trivial); distinct by FNV-64 of "
            "(sub-check, case description, alteration). Alterations that turn out to be the identity, or that only re-encode the same scalars "
            "(non-canonical aliases, property C09), are counted in their own classes and are not evaluated",
    "assumptions": COMMON_ASSUME + [
        "the RFC 9497 reference is written on circl's group API (group law, hash_to_curve, hash_to_field and scalar arithmetic are properties C13/C15/C12); "
        "what it checks independently is everything oprf and zk/dleq add: context strings, DSTs, transcripts, composites, challenge, POPRF tweak, Finalize hash; "
        "it is validated at start-up against the 32 official RFC 9497 vectors of the 4 supported suites",
        "soundness assertions (an altered proof / a proof for a false statement does not verify) hold except with probability <= 2^-120 per case; "
        "qndleq statements are false by construction because the factorisation of N is known to the harness (committed pool of safe primes)",
        "the verifier's security parameter for zk/qndleq is taken to be 128 (the value of the package's own tests; the pinned API gives the verifier no way to state it, the repaired one calls it MinSecParam)",
        "ot/simot draws its scalars and nonces from crypto/rand: only relations that hold for every draw are asserted",
    ],
    "budget": {"quick": 900, "thorough": 5400},
}

MANIFEST = {
    "technique": "property-based testing (rapid) with an RFC 9497 reference (protocol logic re-implemented from the RFC text, self-tested on the official "
                 "vectors), differential verdicts against the reference verifier, metamorphic relations (blind independence, FullEvaluate, VerifyFinalize), "
                 "single-component tamper enumeration, and adversarial proof construction (false-by-construction statements, degenerate and "
                 "prover-chosen-parameter proofs, coordinated alterations) for zk/dleq, zk/dl, zk/qndleq; round-driven relations for ot/simot",
    "text": "Generated-input search. OPRF (4 suites x 3 modes): DeriveKey, blinded elements, evaluated elements and outputs are compared with an "
            "independent RFC 9497 implementation; the server's proof must verify under the RFC's VerifyProof and the reference prover's proof must be "
            "accepted by circl's client; outputs must equal FullEvaluate, satisfy VerifyFinalize and be identical for two different blind vectors; every "
            "single alteration of evaluation[i], proof c/s (through marshal-edit-unmarshal), public key, info or blinded[i] must make Finalize fail. "
            "zk/dleq proofs must equal the reference GenerateProof byte for byte, verify, and fail after any alteration; statements that are false by "
            "construction must never verify, whatever proof is presented (prover run with either exponent, proof of the neighbouring true statement, "
            "c=0, s=0, identity, all-ones, one simulator step). zk/dl and zk/qndleq: honest proofs verify, every altered component, statement element "
            "or context string is refused, and proofs assembled without a witness or with prover-chosen parameters are refused. ot/simot: the receiver "
            "obtains m_choice and its key fails on the other ciphertext. Exploration is the right level: the domain is unbounded and each case has an exact oracle.",
    "note": "on the pinned tree zk/qndleq Proof{Z:7,C:0,SecParam:0}.Verify is true for every statement (key C16/qndleq/false-statement-verifies/prover-chosen-secparam; repaired in /repo by commit 2a9f9b9, after which the key is no longer hit); "
            "the RFC 9497 reference shares circl's group arithmetic by design; zk/dl and zk/qndleq have no independent reference (their transcript formats are circl's own), "
            "they are checked by metamorphic and adversarial relations only; never establishes absence",
}
