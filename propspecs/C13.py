# CPU_OFF and COMMON_ASSUME are injected by props.py
_CFGS = [c for c in CPU_OFF if c["name"] in ("default", "purego", "alloff")]
_SH = {"quick": 1, "thorough": 8}


def _bin(name, run):
    return {"name": name, "pkg": "./zz_verif/c13", "run": run, "configs": _CFGS, "quick_configs": ["default"], "shards": _SH}


SPEC = {
    "bins": [
        # one test package, three processes so that the quick tier runs them side by side
        _bin("c13-nist", "^TestC13(P384|GroupNIST)$"),
        _bin("c13-edwards", "^TestC13(Goldilocks|FourQ|Ristretto)$"),
        _bin("c13-bls", "^TestC13(BLSGroups|Pairing|HashToGroup)$"),
        {"name": "c13-ed25519", "pkg": "./sign/ed25519", "run": "^TestC13", "whitebox": True, "configs": _CFGS,
         "quick_configs": ["default"], "shards": {"quick": 1, "thorough": 4}},
    ],
    "rule": "x",
    "assumptions": COMMON_ASSUME,
    "budget": {"quick": 900, "thorough": 3600},
}

MANIFEST = {
    "technique": "x",
    "text": "x",
    "note": "x",
}
