# CPU_OFF and COMMON_ASSUME are injected by props.py
_CFGS = [c for c in CPU_OFF if c["name"] in ("default", "purego", "alloff")]
_SH = {"quick": 1, "thorough": 8}


def _bin(name, run):
    return {"name": name, "pkg": "./zz_verif/c13", "run": run, "configs": _CFGS, "quick_configs": ["default"], "shards": _SH}


SPEC = {
    "bins": [
        # one black-box test package, three processes so that the quick tier runs them side by side
        _bin("c13-nist", "^TestC13(P384|GroupNIST)$"),
        _bin("c13-edwards", "^TestC13(Goldilocks|GoldilocksLowOrder|FourQ|Ristretto)$"),
        _bin("c13-bls", "^TestC13(BLSGroups|Pairing|PairingConcurrent|GtAliased|HashToGroup)$"),
        # reduced set on the other arithmetic back-ends (fourq, fp448/goldilocks, p384, ristretto255) — also in the quick tier
        {"name": "c13-alt", "pkg": "./zz_verif/c13", "run": "^TestC13AltBackends$",
         "configs": [c for c in _CFGS if c["name"] != "default"], "quick_configs": ["purego", "alloff"], "shards": {"quick": 1, "thorough": 2}},
        # white-box: the internal edwards25519 point type of sign/ed25519 (all three back-end configurations in both tiers)
        {"name": "c13-ed25519", "pkg": "./sign/ed25519", "run": "^TestC13", "whitebox": True, "configs": _CFGS,
         "quick_configs": ["default", "purego", "alloff"], "shards": {"quick": 1, "thorough": 4}},
    ],
    "rule": "case = (curve API, exponent a of P=a*G, relation giving Q, scalar(s) of the full admitted byte width) drawn by rapid, plus plain enumerations "
            "(every scalar within +-24 (thorough +-400) of 0, r, 2r, 3r and of the top of the width; CombinedMult/doubleMult on the grid 0<=m,n<=12 (thorough 40) x ~40 structured Q "
            "incl. dyadic fractions d/2^j*G; pairing lists with identities at every position). All points are known multiples of the generator whose coordinates come from the big-integer "
            "reference, so the expected value of every operation is (expression in the exponents)*G by the reference. "
            "non-trivial = related pair (Q in {P,-P,identity,kP,+-G}), identity or generator operand, boundary scalar (0,1,small,r-1,r,r+1,>r,max,near r), related (m,n) (m=n, m=-n, 0, n*b=m), "
            "a pairing list of length >=2 or containing an identity, a hash output whose membership was verified by the reference; distinct by FNV-64 of (curve, exponents, scalars)",
    "assumptions": COMMON_ASSUME + [
        "ref/curves (math/big affine arithmetic, written from the curve equations) is the oracle; it is self-tested per process against crypto/elliptic (FIPS 186 parameters and multiples), "
        "r*G=O and h*r*P=O on every curve, the RFC 8032 section 7.1 key pair, RFC 9496 appendix A vectors and the published BLS12-381 generators",
        "FourQ's base point is taken from fourq.Params().G as an input; the reference validates that it lies on the curve of the FourQ paper and has order exactly N",
        "pairing values are compared inside circl's Gt (Exp/Mul/Inv/IsEqual): bilinearity is checked as e(pG1,qG2) = e(G1,G2)^(pq), there is no independent Fp12 reference",
        "points of the prime-order group only (FourQ: any curve point), as the property states; decoders are C09's subject",
    ],
    "budget": {"quick": 900, "thorough": 5400},
}

MANIFEST = {
    "technique": "property-based testing (rapid) against an independent big-integer reference (ref/curves: affine short-Weierstrass over Fp/Fp2, twisted Edwards over Fp/Fp2, RFC 9496 ristretto255 encode/decode) "
                 "with exponent-tracked inputs, metamorphic relations, deterministic boundary-scalar sweeps and small exhaustive (m,n,Q) grids; black-box binary under default / purego / all-CPU-features-off, "
                 "white-box overlay for the internal Ed25519 point type",
    "text": "Every point given to circl is a*G for a generated exponent a (structured: 0, 1, -1, small, near r, random) with coordinates produced by the reference, Q is related to P "
            "(P, -P, identity, kP, +-G, d/2^j*G, random) and scalars cover the whole admitted byte width (0, 1, r-1, r, r+1, 2r, > r, 2^k, max). For ecc/p384, group.P256/P384/P521/ristretto255, "
            "ecc/goldilocks (and its twist through Curve.ScalarMult/ScalarBaseMult/CombinedMult), ecc/fourq (variable base includes the factor 392; arbitrary curve points T+aG with T of order dividing 392), "
            "bls12381 G1/G2 and sign/ed25519's internal pointR1 the results of Add/Double/Neg/ScalarMult/ScalarBaseMult/CombinedMult are compared with (expression in exponents)*G of the reference, "
            "plus P+P=2P, P+(-P)=O, (k+r)P=kP, fixed base = variable base on G. Hash-to-group outputs (group.HashToElement[NonUniform] x4, bls G1/G2 Hash/Encode; messages and tags of all lengths, tags > 255 bytes) "
            "must be on the curve and be killed by r according to the reference. Pairing: e(pG1,qG2)=e(G1,G2)^(pq), e(aP,bQ)=e(P,Q)^(ab), e(G1,G2)!=1 of order r, identity arguments give one, "
            "ProdPair/ProdPairFrac equal the product of single pairings (identities in either list at every position, zero exponents, signs +-1, lengths 0-5). "
            "Exploration is the right level: the domain is astronomically large, the failures live on measure-zero sets (P=+-Q, accumulator equal to a table entry, scalars next to the order) that are generated on purpose, and the oracle is exact per case.",
    "note": "trusts math/big and the self-tested reference; pairing correctness is relative to circl's own Gt arithmetic (bilinearity/non-degeneracy/product laws, not the value of the optimal ate pairing); "
            "ristretto255 is the third-party go-ristretto behind group.Ristretto255; arm64 back-ends cannot run here; never establishes absence",
}
