# CPU_OFF and COMMON_ASSUME are injected by props.py
_CFGS = [c for c in CPU_OFF if c["name"] in ("default", "purego", "alloff")]
SPEC = {
    "bins": [
        {"name": "c13", "pkg": "./zz_verif/c13", "run": ".", "configs": _CFGS, "quick_configs": ["default"],
         "shards": {"quick": 1, "thorough": 16}},
        {"name": "c13-ed25519", "pkg": "./sign/ed25519", "run": "^TestC13", "whitebox": True, "configs": _CFGS,
         "quick_configs": ["default"], "shards": {"quick": 1, "thorough": 4}},
    ],
    "rule": "x",
    "assumptions": COMMON_ASSUME,
    "budget": {"quick": 900, "thorough": 3600},
}

MANIFEST = {
    "technique": "x",
    "text": "x",
    "note": "x",
}
