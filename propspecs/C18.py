# CPU_OFF and COMMON_ASSUME are injected by props.py
SPEC = {
    "bins": [
        {"name": "c18", "pkg": "./zz_verif/c18", "run": ".", "shards": {"quick": 1, "thorough": 16}},
        # the concurrent sub-check once more under the race detector (results are compared in both builds)
        {"name": "c18conc", "pkg": "./zz_verif/c18", "run": "^TestC18Concurrent$", "race": True, "shards": {"quick": 1, "thorough": 4}},
    ],
    "rule": "protocol runs: case = (pool key, variant (4 RSABSSA variants) or partially-blind hash in {SHA-256,384,512}, message, metadata, preparation prefix, PSS salt, two blinding factors, 3 alterations of the blind signature, 2 out-of-range signer inputs, then 1 (blindrsa) or 2-3 (partially blind) further protocol rounds on the same Client/Signer/Verifier objects, the partially blind ones with one metadata buffer overwritten in place between rounds: same length, other length, an earlier value again) drawn by rapid; "
            "keys: public exponent 65537 and, for five of the keys, the same primes with e = 3, 17, 257; 1024/1025/1536/2048/2049/3072/4096-bit two-prime keys and 1024/1025/1536/2048/2049/3072-bit safe-prime keys (1025 and 2049: emBits a multiple of 8). "
            "Verifier options: the exported blindrsa.Verifier with its embedded PSSOptions set to every documented form (salt length 0, 20, 32, 48, 64, PSSSaltLengthEqualsHash, PSSSaltLengthAuto; SHA-256/384/512) on signatures made by crypto/rsa.SignPSS with a matching or non-matching salt length (1/6 altered) must give the verdict of crypto/rsa.VerifyPSS under the same options. "
            "verifier equivalence: every verification entry point (blindrsa Verifier.Verify and Client.Verify of all four variants, partially blind Verifier.Verify) is given (message, signature) pairs built independently of any Prepare: message lengths 0..40 (40 %), block-boundary lengths and up to 512 bytes, signatures by ref/pss encoding + private exponent or by crypto/rsa.SignPSS; case = (key, variant / hash and metadata, message, crafted signature) where the signature is valid or malformed at the encoded-message level "
            "(salt length, trailer, top bits, non-zero PS, separator, H, other message, representative longer than emLen) and signed with the private exponent, or malformed at the byte level (s+N, bit flips, 0, 1, N-1, N, N+1, length, random). "
            "partially blind metadata lengths include 0, <= 64 and 255, 256, 257, 65535, 65536, 65537, 70196 bytes. concurrent sub-check (also built with -race): 8 goroutines behind a barrier run complete protocol rounds on ONE Client, ONE Verifier and ONE Signer (all 4 variants; partially blind: ONE Verifier, ONE Signer), every result checked as in the sequential case and compared byte for byte with the signature obtained alone on fresh objects. "
            "non-trivial = a concurrent round, protocol run on a key with emBits%8==0 or under a metadata-derived key, the second run with another blinding factor, a further round on reused objects, an altered blind signature or out-of-range signer input that was refused, "
            "a verifier-equivalence pair that is malformed or on an emBits%8==0 key or under a derived key; distinct by FNV-64 of (sub-check, key, variant, message, metadata, salt, blind, altered bytes)",
    "assumptions": COMMON_ASSUME + [
        "the harness does not own the Go scheduler: the concurrent sub-check relies on the race detector plus long messages for overlap; an interleaving that needs one precise preemption point may be missed",
        "crypto/rsa.VerifyPSS is the oracle for blindrsa; for metadata-derived keys (public exponent of about half the modulus size) the oracle is ref/pss, an RFC 8017 verifier over math/big that is self-tested against crypto/rsa.SignPSS output on the whole key pool and against the RFC 9474 vectors",
        "crypto/rsa reads PSSOptions.SaltLength 0 as 'auto'; for the PSSZERO variants the equivalence is stated against that reading (circl does the same)",
        "the derived public exponent is computed from draft-amjad-cfrg-partially-blind-rsa (HKDF-based DerivePublicKey) with x/crypto/hkdf",
        "Client.Blind is assumed to read the salt before the blinding factor (RFC 9474 order); this is checked per case by recovering the salt from the signature, otherwise the blinding-independence relation is skipped",
    ],
    "budget": {"quick": 900, "thorough": 3600},
}

MANIFEST = {
    "technique": "property-based testing (rapid): differential testing of blind-RSA protocol runs and of the package's PSS verifier against crypto/rsa.VerifyPSS and an independent RFC 8017 reference (ref/pss, big public exponents), "
                 "metamorphic relation over blinding factors, tamper tests on blind signatures and signer inputs, structure-aware crafting of malformed encoded messages signed with the private key",
    "text": "Generated-input search over (key, variant, message, metadata, prefix, salt, blinding factors) with all randomness supplied through deterministic readers: the finalised signature must verify under the library, under crypto/rsa.VerifyPSS with the variant's salt length and under the strict RFC 8017 reference (for the partially blind scheme under the independently derived public key, with the supplied salt found in the signature); "
            "two runs that differ only in the blinding factor must give byte-identical signatures; Finalize must refuse every altered blind signature (bit flips, 0, 1, N-1, N, N+1, +1, wrong lengths, random); BlindSign must refuse every input >= N or of wrong length; further rounds on the same Signer/Client/Verifier objects (metadata buffer reused and overwritten in place) must finalise and verify under the reference with the metadata of that round; "
            "and the library verifier must agree with crypto/rsa.VerifyPSS (reference for derived keys) on valid pairs and on pairs malformed in each field of the EMSA-PSS encoding or at the byte level. "
            "Exploration is the right level: the claim is a differential one over all keys, salts and malformed signatures, each case has an exact oracle.",
    "note": "the concurrent sub-check runs in the ordinary and in a -race binary (c18conc); trusts crypto/rsa, math/big, x/crypto/hkdf; key pool is fixed (committed PEM files; e = 65537, plus e = 3/17/257 variants built in the harness from the same primes and validated by crypto/rsa); partially blind keys are restricted to modulus sizes for which the draft's byte-oriented exponent derivation and circl's bit-oriented one coincide (bit length = 0 or 1 mod 16); "
            "partiallyblindrsa.Blind draws its salt from crypto/rand regardless of the reader passed, so determinism relations use FixedBlind; never establishes absence",
}
