# CPU_OFF and COMMON_ASSUME are injected by props.py
_CFG = [c for c in CPU_OFF if c["name"] in ("default", "purego", "noavx2")]
_CFG2 = [c for c in CPU_OFF if c["name"] in ("default", "noavx2")]
_PUREGO = [c for c in CPU_OFF if c["name"] == "purego"]
_MODES = [("mldsa44", "./sign/mldsa/mldsa44"), ("mldsa65", "./sign/mldsa/mldsa65"), ("mldsa87", "./sign/mldsa/mldsa87"),
          ("mode2", "./sign/dilithium/mode2"), ("mode3", "./sign/dilithium/mode3"), ("mode5", "./sign/dilithium/mode5")]
SPEC = {
    "bins": [
        # black-box: transcripts (pk, sk, signature bytes) and Verify verdicts against ref/mldsa, AVX2 on and off;
        # TestC04Concurrent: the same outputs under 8 goroutines per scheme
        {"name": "c04", "pkg": "./zz_verif/c04", "run": "^TestC04(Transcript|Verdict|Concurrent|Randomness|History)$", "configs": _CFG2,
         "shards": {"quick": 2, "thorough": 16}},
        {"name": "c04-purego", "pkg": "./zz_verif/c04", "run": "^TestC04(Transcript|Verdict|Concurrent|Randomness|History)$", "configs": _PUREGO, "tiers": ["thorough"],
         "shards": {"thorough": 4}},
        # black-box: reference-driven search for rare signing paths (hint weight > omega, weight == omega, >= 15 rounds)
        # and for key seeds in the tail of ExpandS (extra SHAKE block), fed to whole keygen + signing
        {"name": "c04-rare", "pkg": "./zz_verif/c04", "run": "^TestC04(RareBranches|TailSeeds)$", "shards": {"quick": 4, "thorough": 16}},
        # white-box: sign/internal/dilithium (scalar sweeps, polynomial routines generic and AVX2, T0/T1/Le16 packing)
        {"name": "c04-common", "pkg": "./sign/internal/dilithium", "run": "^TestC04", "whitebox": True, "configs": _CFG,
         "quick_configs": ["default", "noavx2"], "shards": {"quick": 1, "thorough": 16}},
    ] + [
        # white-box: the six generated mode packages (decompose/useHint/makeHint sweeps, packing, samplers, hedged internal.SignTo)
        {"name": "c04-int-" + n, "pkg": p + "/internal", "run": "^TestC04", "whitebox": True, "configs": _CFG2,
         "quick_configs": ["default"], "shards": {"quick": 1, "thorough": 16}} for n, p in _MODES
    ] + [
        # white-box: unsafeSignInternal / unsafeVerifyInternal of the public ML-DSA packages (hedged signing with chosen rnd)
        {"name": "c04-pkg-" + n, "pkg": p, "run": "^TestC04", "whitebox": True, "shards": {"quick": 1, "thorough": 4}} for n, p in _MODES[:3]
    ],
    "rule": "case = (parameter set, seed xi, message, ctx, rnd[, alteration]) drawn by rapid (edge-biased seeds, message lengths around SHAKE block "
            "boundaries, ctx in {nil, empty, 1, 255, random 0..255 bytes}) over ML-DSA-44/65/87 and Dilithium2/3/5, or one point of an enumerated "
            "rounding/packing domain. non-trivial = (a) a signing case in which the reference signer needed >= 2 rounds (classes per rejection branch: "
            "z-norm, r0-norm, ct0-overflow, hint-weight>omega; rare paths are additionally searched for with the reference signer: hint weight > omega, "
            "final hint weight == omega, >= 15 rounds), (b) a strictness probe: a signature made with the real secret key that is valid except for exactly "
            "one rule (||z||_inf == gamma1-beta, swapped / duplicated hint indices, non-zero hint padding, decreasing or oversized switch-over byte, flipped "
            "c~ bit, trailing bytes, truncation, a context of 256..1100 bytes presented with the signature that the wrapped 1-byte length would make valid) or valid with the extreme norm gamma1-beta-1, (c) a hint encoding that decodes successfully, a sampler input "
            "(incl. inputs found by scanning with the reference's XOF byte counters: a 23-bit candidate exactly on the rejection boundary q / q-1, the (seed, nonce) "
            "pairs and key seeds xi from the far tail of the rejection count, in particular every ExpandS call that needs a third SHAKE-256 block). Distinct by FNV-64 of (sub-check, seed, message, ctx, "
            "alteration, signature). Enumerated points of the rounding sweeps are counted as evaluations only.",
    "assumptions": COMMON_ASSUME + [
        "zz_verif/ref/mldsa is the oracle: written from FIPS 204 / the round-3.1 specification with int64 arithmetic and x/crypto/sha3, validated in every "
        "process against 72 NIST ACVP FIPS204 vectors (keyGen, sigGen deterministic+hedged, sigVer) and, in the black-box binary, against the published "
        "SHA-256 digests of the pq-crystals PQCsignKAT files for all six parameter sets (600 keygen+sign transcripts)",
        "the pure-ML-DSA framing 0x00||len(ctx)||ctx||M with a non-empty ctx is pinned by the FIPS 204 text only (ACVP vectors here use the internal "
        "interface, the KAT files use the empty context)",
        "signing paths of negligible probability (||c*t0||_inf >= gamma2: about 1e-7 per attempt for gamma2=(q-1)/88, far less otherwise) are not reached",
    ],
    "budget": {"quick": 900, "thorough": 3600},
}

MANIFEST = {
    "technique": "differential property-based testing (rapid) of all six ML-DSA / Dilithium packages against an independent, instrumented reference "
                 "implementation of FIPS 204 / Dilithium 3.1 (byte equality of keys and deterministic + hedged signatures, equality of Verify verdicts on "
                 "honest, mutated and reference-made strictness-probe signatures); exhaustive enumeration of power2round, decompose, useHint, le2qModQ, "
                 "makeHint, ReduceLe2Q/modQ (2^32, thorough) and of every packed value at every position class; generic vs AVX2 vs purego polynomial "
                 "routines against plain-integer ring arithmetic; reference-driven search for rare signing paths and for rejection-boundary sampler inputs",
    "text": "An independent reference (zz_verif/ref/mldsa; self-tested against NIST ACVP vectors and the published KAT digests of the pq-crystals code) "
            "computes KeyGen_internal, Sign_internal (reporting the rejection branch of every round) and Verify_internal with the pure-ML-DSA framing. For "
            "generated (seed, message, context, rnd) circl's public key, private key, deterministic signature (public SignTo) and hedged signature "
            "(internal.SignTo / unsafeSignInternal with chosen rnd, white-box) must equal the reference byte for byte, and Verify must return the reference's "
            "verdict on honest triples, on byte-mutated signatures / keys / messages / contexts and on strictness probes that the reference signer makes "
            "with the real secret key so that exactly one rule is broken (norm exactly at gamma1-beta found by planting a mask coefficient, non-canonical "
            "hint encodings, altered c~, trailing bytes). White-box tests sweep the scalar rounding and reduction functions over their whole domains and "
            "compare packing, samplers (incl. the four-way SHAKE variants) and NTT / pointwise arithmetic (dispatching and generic) with the reference. "
            "Exploration is the right level for the signing/verification part: the input space is unbounded and the oracle is exact per case; the scalar "
            "functions are small enough to enumerate completely.",
    "note": "trusts x/crypto/sha3, crypto/aes (KAT DRBG) and the reference (validated as stated); the c*t0-overflow branch of the signing loop is never "
            "reached; arm64 back-ends are not executed on this machine; randomized public SignTo is only checked to produce signatures the reference accepts; "
            "white-box sub-checks become 'unavailable' (not failures) if the internal packages are refactored; never establishes absence",
}
