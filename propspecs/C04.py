# CPU_OFF and COMMON_ASSUME are injected by props.py
_CFG = [c for c in CPU_OFF if c["name"] in ("default", "purego", "noavx2")]
_MODES = [("mldsa44", "./sign/mldsa/mldsa44"), ("mldsa65", "./sign/mldsa/mldsa65"), ("mldsa87", "./sign/mldsa/mldsa87"),
          ("mode2", "./sign/dilithium/mode2"), ("mode3", "./sign/dilithium/mode3"), ("mode5", "./sign/dilithium/mode5")]
SPEC = {
    "bins": [
        {"name": "c04", "pkg": "./zz_verif/c04", "run": "^TestC04(Transcript|Verdict)$", "configs": _CFG, "quick_configs": ["default", "noavx2"],
         "shards": {"quick": 2, "thorough": 16}},
        {"name": "c04-rare", "pkg": "./zz_verif/c04", "run": "^TestC04RareBranches$", "shards": {"quick": 6, "thorough": 16}},
        {"name": "c04-common", "pkg": "./sign/internal/dilithium", "run": "^TestC04", "whitebox": True, "configs": _CFG,
         "quick_configs": ["default", "noavx2"], "shards": {"quick": 1, "thorough": 16}},
    ] + [
        {"name": "c04-int-" + n, "pkg": p + "/internal", "run": "^TestC04", "whitebox": True, "configs": _CFG,
         "quick_configs": ["default"], "shards": {"quick": 1, "thorough": 16}} for n, p in _MODES
    ] + [
        {"name": "c04-pkg-" + n, "pkg": p, "run": "^TestC04", "whitebox": True, "shards": {"quick": 1, "thorough": 4}} for n, p in _MODES[:3]
    ],
    "rule": "TBD",
    "assumptions": COMMON_ASSUME + [],
    "budget": {"quick": 900, "thorough": 3600},
}

MANIFEST = {
    "technique": "TBD",
    "text": "TBD",
    "note": "TBD",
}
