# CPU_OFF and COMMON_ASSUME are injected by props.py
SPEC = {
    "bins": [
        {"name": "c04", "pkg": "./zz_verif/c04", "run": ".", "shards": {"quick": 2, "thorough": 16}},
    ],
    "rule": "TBD",
    "assumptions": COMMON_ASSUME + [],
    "budget": {"quick": 900, "thorough": 3600},
}

MANIFEST = {
    "technique": "TBD",
    "text": "TBD",
    "note": "TBD",
}
