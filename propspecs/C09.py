# CPU_OFF and COMMON_ASSUME are injected by props.py
SPEC = {
    "bins": [
        {"name": "c09", "pkg": "./zz_verif/c09", "run": ".", "shards": {"quick": 1, "thorough": 16}},
        {"name": "c09-tkn", "pkg": "./abe/cpabe/tkn20/internal/tkn", "run": "^TestVerifC09", "whitebox": True, "shards": {"quick": 1, "thorough": 4}},
        {"name": "c09-ed25519", "pkg": "./sign/ed25519", "run": "^TestVerifC09", "whitebox": True, "shards": {"quick": 1, "thorough": 4}},
    ],
    "rule": "case = (format, byte string of one of the format's exact encoded lengths) drawn by rapid per format from "
            "{library-produced encoding; one bit flipped (biased to flag/sign/top octets); flag/prefix bits rewritten; a coordinate := value in [p, 2^bits) "
            "(p, p+small, (valid coordinate)+p when it fits, uniform); curve point outside the r-torsion obtained by solving the curve equation with the reference "
            "big-int code (BLS12-381 G1/G2, FourQ) and its pure cofactor component r*P / N*P; point of another curve y^2=x^3+b' (twist / invalid curve); "
            "STRUCTURED VALID encodings built by the reference (coordinates in a proper subfield or with a zero component, 0/+-1/small/2^k/near-p coordinates lifted through the curve equation, torsion and small-order members, +-k*G, both sign bits; a reference-valid one must be accepted); infinity with stray flag or payload bits; unused high bits set; non-canonical sign of x=0; RFC 9496 bad encodings; ML-KEM coefficient in [q,4096); uniformly random}. "
            "Formats: bls12381 G1/G2 SetBytes (48/96, 96/192 bytes), sign/bls public keys (UnmarshalBinary+Validate), signatures through Verify, and Aggregate / VerifyAggregate as parsers "
            "(lists of 1 (heavily weighted), 2, 3, 4, 5, 8 signatures with one generated position hostile / non-canonical / structured; success => every input is a member encoding and the output is the canonical compressed sum of the reference), "
            "tkn20 matrixG1/matrixG2 (white-box), goldilocks.FromBytes / Point.UnmarshalBinary (57), fourq.Point.Unmarshal and curve4q.Shared (32), "
            "Ed25519 public keys (white-box pointR1.FromBytes incl. all 38 encodings with y>=p; black-box Verify with forged signatures under low-order keys), "
            "group.P256/P384/P521 and ristretto255 elements, OPRF public keys of the four suites, ML-KEM-512/768/1024 + X25519MLKEM768 + X-Wing encapsulation keys. "
            "Every decoder that has a receiver is additionally run, for every generated input, into a USED receiver (holding the generator / identity / an unnormalised sum / k*G / another key or matrix / the remains of a rejected decode / the same input, chosen by a hash of the input): same verdict as a fresh receiver, and for accepted inputs identical serialisations, IsIdentity, membership, equality with the fresh value and identical results of one doubling/addition. "
            "non-trivial = the input is not an unmodified library encoding; distinct by FNV-64 of (sub-check, input bytes[, key seed, message])",
    "assumptions": COMMON_ASSUME + [
        "the reference decoders in zz_verif/ref/decode (math/big only, written from the ZCash serialisation notes, RFC 8032, RFC 9496, SEC 1, FIPS 203 and the FourQ paper) are correct; "
        "they are validated at start-up against the zkcrypto G1/G2 vector files, the published generator encodings, h*r*P=O for lifted points, RFC 8032 key pairs and base points, "
        "the RFC 9496 multiples and bad encodings, crypto/elliptic + crypto/ecdh on the NIST curves, N*G=O and 392*N*P=O on FourQ",
        "FourQ has no official test vectors available offline: its reference is validated by algebraic identities only (generator on curve, N*G=O, #E=392*N on lifted points, sign bit selects -x)",
        "a panic inside a decoder is counted but not judged here (property C10 owns it)",
        "inputs longer or shorter than the exact encoded lengths are outside the quantifier (trailing bytes are counted only)",
    ],
    "budget": {"quick": 900, "thorough": 3600},
}

MANIFEST = {
    "technique": "property-based testing (rapid) with format-aware adversarial generators and differential oracles: every decoder is compared, per input, with an independent big-integer reference decoder (soundness: accept => reference accepts and same-format re-serialisation is byte-identical; completeness on library output); exhaustive enumeration of the 38 Ed25519 encodings with y >= p; white-box overlays for Ed25519 point decoding and tkn20 matrices",
    "text": "Generated-input search over byte strings of the exact encoded lengths of 14 format families. For each input the circl decoder's verdict and its re-serialisation are compared with a reference decoder written from the specification with math/big (flag rules, field range, curve equation, r-torsion by scalar multiplication with r, canonical sign rules). Inputs concentrate on the complement of the encoder's image: bit flips, non-reduced coordinates, cofactor and invalid-curve points built by solving the curve equation, infinity with stray bits, unused bits, wrong sign of zero. Exploration is the right level: the domain is all 2^(8n) strings per format and the oracle is exact per case; the only finite sub-domain that matters (Ed25519 y in [p,2^255)) is enumerated.",
    "note": "trusts math/big and the self-tested reference decoders; subgroup membership of accepted inputs is re-derived by a 255-bit scalar multiplication in affine big-integer arithmetic, independent of circl's endomorphism-based checks; 'reference accepts => circl accepts' is only counted; never establishes absence",
}
