# CPU_OFF and COMMON_ASSUME are injected by props.py
SPEC = {
    "bins": [
        {"name": "c09", "pkg": "./zz_verif/c09", "run": ".", "shards": {"quick": 1, "thorough": 16}},
        {"name": "c09-ed25519", "pkg": "./sign/ed25519", "run": "^TestVerifC09", "whitebox": True, "shards": {"quick": 1, "thorough": 4}},
    ],
    "rule": "TODO",
    "assumptions": COMMON_ASSUME,
    "budget": {"quick": 900, "thorough": 3600},
}

MANIFEST = {
    "technique": "TODO",
    "text": "TODO",
    "note": "TODO",
}
