# CPU_OFF and COMMON_ASSUME are injected by props.py
def _wb(name, pkg, **kw):
    d = {"name": name, "pkg": pkg, "run": "^TestVerifC12", "whitebox": True, "shards": {"quick": 1, "thorough": 4}}
    d.update(kw)
    return d

SPEC = {
    "bins": [
        _wb("c12-wb-fp25519", "./math/fp25519"),
        _wb("c12-wb-fp448", "./math/fp448"),
        _wb("c12-wb-p384", "./ecc/p384"),
    ],
    "rule": "TODO",
    "assumptions": COMMON_ASSUME,
    "budget": {"quick": 900, "thorough": 3600},
}

MANIFEST = {
    "technique": "TODO",
    "text": "TODO",
    "note": "TODO",
}
