# CPU_OFF and COMMON_ASSUME are injected by props.py
def _wb(name, pkg, **kw):
    d = {"name": name, "pkg": pkg, "run": "^TestVerifC12", "whitebox": True, "shards": {"quick": 1, "thorough": 4}}
    d.update(kw)
    return d

SPEC = {
    "bins": [
        {"name": "c12-math", "pkg": "./zz_verif/c12", "run": "^TestC12", "configs": CPU_OFF, "quick_configs": ["default"],
         "shards": {"quick": 1, "thorough": 2}},
        {"name": "c12-bls", "pkg": "./zz_verif/c12/bls", "run": "^TestC12", "shards": {"quick": 1, "thorough": 8}},
        {"name": "c12-prio", "pkg": "./zz_verif/c12/prio", "run": "^TestC12", "shards": {"quick": 1, "thorough": 4}},
        {"name": "c12-scalar", "pkg": "./zz_verif/c12/scalar", "run": "^TestC12", "shards": {"quick": 1, "thorough": 4}},
        _wb("c12-wb-fp25519", "./math/fp25519"),
        _wb("c12-wb-fp448", "./math/fp448"),
        _wb("c12-wb-p384", "./ecc/p384"),
        _wb("c12-wb-fourq", "./ecc/fourq"),
        _wb("c12-wb-csidh", "./dh/csidh"),
        _wb("c12-wb-ed25519", "./sign/ed25519"),
        _wb("c12-wb-kyber", "./pke/kyber/internal/common"),
        _wb("c12-wb-dilithium", "./sign/internal/dilithium"),
    ],
    "rule": "TODO",
    "assumptions": COMMON_ASSUME,
    "budget": {"quick": 900, "thorough": 3600},
}

MANIFEST = {
    "technique": "TODO",
    "text": "TODO",
    "note": "TODO",
}
