# CPU_OFF and COMMON_ASSUME are injected by props.py
def _wb(name, pkg, **kw):
    d = {"name": name, "pkg": pkg, "run": "^TestVerifC12", "whitebox": True, "shards": {"quick": 1, "thorough": 4}}
    d.update(kw)
    return d

SPEC = {
    "bins": [
        # black-box: exported API of math/fp25519, math/fp448 (every CPU configuration + purego in the thorough tier) and internal/conv
        {"name": "c12-math", "pkg": "./zz_verif/c12", "run": "^TestC12", "configs": CPU_OFF, "quick_configs": ["default"],
         "shards": {"quick": 1, "thorough": 2}},
        # black-box: BLS12-381 Fp, Scalar, Fp2, Fp4, Fp6, Fp12, Fp12Cubic, Cyclo6, URoot against ref/fptower
        {"name": "c12-bls", "pkg": "./zz_verif/c12/bls", "run": "^TestC12", "shards": {"quick": 1, "thorough": 8}},
        # black-box: Prio3 fp64 / fp128 elements, vectors (NTT), polynomials
        {"name": "c12-prio", "pkg": "./zz_verif/c12/prio", "run": "^TestC12", "shards": {"quick": 1, "thorough": 4}},
        # black-box: goldilocks.Scalar, group.Scalar of P-256/P-384/P-521/ristretto255
        {"name": "c12-scalar", "pkg": "./zz_verif/c12/scalar", "run": "^TestC12", "shards": {"quick": 1, "thorough": 4}},
        # white-box overlays, one binary per circl package: generic Go / legacy asm / BMI2(-ADX) asm side by side
        _wb("c12-wb-fp25519", "./math/fp25519"),
        _wb("c12-wb-fp448", "./math/fp448"),
        _wb("c12-wb-p384", "./ecc/p384"),
        _wb("c12-wb-fourq", "./ecc/fourq"),
        _wb("c12-wb-csidh", "./dh/csidh"),
        _wb("c12-wb-ed25519", "./sign/ed25519"),
        _wb("c12-wb-kyber", "./pke/kyber/internal/common"),
        _wb("c12-wb-dilithium", "./sign/internal/dilithium"),
    ],
    "rule": "case = (field type, operation, operand tuple, alias pattern, back-end); operands are drawn per 64-bit limb from "
            "{0,1,2,c-1,c,c+1,2^32-1,2^32,2^63,2^64-c-1..2^64-1} or uniform, from value-level edges (k*p+d, p-1-d, 2p+-d, 2^bits-1-d, p/2) "
            "and uniform; for Montgomery-form types the edge structure is placed either in the value or in the internal representation a*R. "
            "non-trivial = the tuple contains an edge-class or unreduced operand, or the call is aliased (z=x, z=y, x=y, z=x=y); "
            "distinct by FNV-64 of (type, operation, back-end, alias, operands). Exhaustive sub-domains (Kyber 16-bit and Dilithium 32-bit "
            "reductions) count one evaluation per input and one non-trivial object per shard. Zero/one/equality predicates are additionally swept "
            "deterministically over every single-bit and one-limb-mask difference of the internal (Montgomery) representation, and Kyber "
            "Poly.Normalize/BarrettReduce over all int16 in all 16 SIMD lanes. For Montgomery-form types a quarter of the arithmetic cases solve the operands so that "
            "the internal word of the RESULT is a drawn edge word (mostly in the gap [0, 2^w-p)), and every result is compared both by value and as the canonical object. The Poly operations of sign/internal/dilithium and of the Kyber common package "
            "are fed exactly their documented input ranges (structured coefficients up to 2^32-1 resp. the int16 limits, products just below the documented bound) "
            "on the dispatched (AVX2) and the generic code. An aliased call is always preceded by the "
            "same call on distinct objects, so a failure keyed '<type>/<op>/aliased' is caused by the aliasing itself.",
    "assumptions": COMMON_ASSUME + [
        "reference for the BLS12-381 tower: ref/fptower (polynomials in w over Fp2 with w^6 = 1+u on math/big, inverse by Gaussian elimination); "
        "its constants are derived from the BLS parameter x and compared with the published p and r; structural Frobenius is self-tested against exponentiation",
        "orders of P-256/P-384/P-521 are taken from crypto/elliptic; all other moduli are written out from their defining formulas and tested for primality",
        "NTT convention pinned: out[k] = sum_j in[j]*w^(jk) with w = SetRootOfUnityTwoN(log2 N), InvNTT uses 1/w and no 1/N factor (checked to be primitive)",
        "arm64 back-ends cannot be executed on this machine; white-box overlays for p384/fourq/csidh/fp25519/fp448 are built for amd64 && !purego only",
    ],
    "budget": {"quick": 900, "thorough": 3600},
}

MANIFEST = {
    "technique": "property-based testing (rapid) with limb-structured boundary-biased operand generation and aliasing patterns, differential against math/big "
                 "(and a polynomial-arithmetic reference tower for BLS12-381); in-process back-end switching (generic Go / legacy asm / BMI2-ADX asm) in white-box "
                 "overlays plus process-level CPU-feature configurations and the purego build; exhaustive enumeration of the 16-bit Kyber and 32-bit Dilithium reductions",
    "text": "For every field type (fp25519, fp448, P-384 fp384, FourQ Fp/Fq, CSIDH fp, BLS12-381 Fp/Fp2/Fp4/Fp6/Fp12/Fp12Cubic/Cyclo6/URoot/Scalar, Prio3 fp64/fp128 "
            "with vectors, NTT and polynomials, Ed25519 scalar reduction, goldilocks.Scalar, group.Scalar of four groups, internal/conv) an adapter maps to and from "
            "math/big and each operation is evaluated on generated operand tuples: the canonical residue of the result must equal the integer result, types with a "
            "reduced operand domain must return reduced values, canonicalising operations must behave as on the unique representative, selections are exact for "
            "selector 0/1, square roots exist exactly when Euler's criterion says so. The search is the right level: the domains have 2^256..2^1024 elements and the "
            "faults of interest (carry propagation) occur with probability about 2^-64 under uniform sampling, which is why operands are built limb by limb from edge values; "
            "the two small domains are enumerated completely.",
    "note": "trusts math/big and crypto/elliptic parameters; 1/0, InvSqrt with y=0 and other undocumented corner results are counted but not asserted; "
            "FourQ fqSqrt is accepted up to conjugation (its only caller compensates); fp384/csidh/ff results are required to be fully reduced because the packages compare them byte-wise; "
            "arm64 assembly is not executed; never establishes absence",
}
