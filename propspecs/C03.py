# CPU_OFF and COMMON_ASSUME are injected by props.py
SPEC = {
    "bins": [
        # black-box: circl's six KEM packages and three K-PKE packages against the independent reference ref/mlkem
        {"name": "c03", "pkg": "./zz_verif/c03", "run": "^TestC03",
         "configs": [c for c in CPU_OFF if c["name"] in ("default", "noavx2")],
         "shards": {"quick": 4, "thorough": 16}},
        # the same comparison with the reference on the other back-ends (reduced: generated KEM / K-PKE / parse cases only,
        # one shard in quick): -tags purego uses the wrappers of generic.go, alloff the non-AVX2 branch of amd64.go
        {"name": "c03alt", "pkg": "./zz_verif/c03", "run": "^TestC03(KEM|PKE|Parse|Aliasing)$",
         "configs": [c for c in CPU_OFF if c["name"] in ("purego", "alloff")],
         "quick_configs": ["purego", "alloff"],
         "shards": {"quick": 1, "thorough": 8}},
        # white-box: sweeps of the helper functions of pke/kyber/internal/common over their documented domains; the default
        # build sweeps the amd64.go wrappers with AVX2 off and on, the purego build the generic.go wrappers
        {"name": "c03wb", "pkg": "./pke/kyber/internal/common", "run": "^TestVC03", "whitebox": True,
         "configs": [c for c in CPU_OFF if c["name"] in ("default", "purego")],
         "quick_configs": ["default", "purego"],
         "shards": {"quick": 2, "thorough": 16}},
    ],
    "rule": "black-box case = (parameter set, 64-byte seed d||z, 32-byte m, ciphertext) resp. (parameter set, key bytes); every case compares circl's bytes "
            "(ek, dk, ct, K, Decaps(c), K-PKE Encrypt/Decrypt, accept/refuse of key parsing, re-encoding) with the reference zz_verif/ref/mlkem "
            "(FIPS 203 resp. round-3 Kyber written from the specification; self-tested against NIST ACVP vectors and the round-3 KAT digests). "
            "non-trivial = decapsulation/decryption of a non-honest ciphertext (bit-flipped, random, compressed-field boundary patterns, ciphertexts steered so that v-s.u sits on a Compress_1 rounding boundary, honest ciphertext of another m), "
            "single-bit flips of one honest ciphertext per parameter set (thorough: every bit; quick: every bit of the last 256 and first 32 bytes plus every 8th bit elsewhere, offset rotating with the seed), parsing of a malformed key (coefficient in [q,4096), corrupted H(ek), wrong length) or of a well-formed variant (incl. consistent keys with edge matrix seeds rho = 0^32, 1^32, one bit, and Unpack into a key object that held another key), keys with unreduced coefficients at the K-PKE level, "
            "an object history (another key decoded into a related key object, then every live object compared with the key it should hold), a typed *To call with overlapping caller buffers (KEM level and K-PKE level: pt / seed inside ct for EncryptTo, pt inside ct for DecryptTo), a key whose input buffers (seed, encodings, encapsulation seed, ciphertexts) were overwritten after each call and which is then compared with the reference for the original bytes, an object whose returned slices (MarshalBinary of ek/dk/Public(), ct, K; spare capacity included) were overwritten and which is then observed again, a vector run by 8 goroutines concurrently (incl. first use of freshly parsed keys by 4 goroutines released together), a CBD PRF stream, an NTT boundary polynomial, a four-way sampling call whose lanes finish in different SHAKE128 blocks; distinct by FNV-64 of the case. "
            "White-box helper sweeps (barrettReduce, toMont, csubq, montReduce over its whole documented domain of 218 169 344 values, Compress_d/Decompress_d for d in {1,4,5,10,11} at all 256 positions, "
            "Pack/Unpack, Normalize/BarrettReduce, all 65 536 monomial products and all sign-pattern polynomials through NTT/MulHat/InvNTT on the generic and the AVX2 back-end) are complete enumerations "
            "listed under exhaustive_subdomains; they dominate the evaluation count and are not counted as non-trivial",
    "assumptions": COMMON_ASSUME + [
        "golang.org/x/crypto/sha3 (SHA3-256/512, SHAKE128/256) and crypto/aes (KAT DRBG of the self-test) are correct",
        "the reference ref/mlkem is correct where it is pinned: 78 ACVP FIPS 203 vectors (keyGen, encapsulation, decapsulation incl. rejection) and the three published round-3 PQCkemKAT digests; its direct O(n^2) NTT is cross-checked with schoolbook multiplication",
        "round-3 Kyber is taken to decode 12-bit key coefficients as integers that are then used modulo q (Decode_12 followed by arithmetic in R_q) and to hash the public key bytes as received (H(pk)); FIPS 203 ByteDecode_12 reduces modulo q",
    ],
    "budget": {"quick": 900, "thorough": 3600},
}

MANIFEST = {
    "technique": "differential property-based testing (rapid) of all six KEM and three K-PKE packages against an independent specification-level reference (FIPS 203 / round-3 Kyber, self-tested on ACVP vectors and KAT digests), "
                 "plus white-box exhaustive enumeration of the 16/32-bit helper functions and generic-vs-AVX2 differential sweeps, run with AVX2 on, AVX2 off, all CPU features off and -tags purego (both tiers)",
    "text": "Generated-input search over (parameter set, seeds d||z, m, ciphertext class, key-byte mutation): ek, dk, ct, K and Decaps(c) of kem/mlkem/mlkem{512,768,1024} and kem/kyber/kyber{512,768,1024} "
            "(scheme API and typed API, generated keys and keys parsed from bytes) and KeyGen/Encrypt/Decrypt of pke/kyber/kyber* must equal byte for byte the output of a slow, obvious reference written from FIPS 203 "
            "(with the four round-3 differences behind a flag). Ciphertext classes include compressed-field boundary patterns and ciphertexts steered, using the secret key, so that the polynomial rounded by decryption "
            "sits exactly on the 832|833 and 2496|2497 boundaries. ML-KEM key parsing must accept exactly the byte strings that pass the FIPS 203 section 7.2/7.3 checks, re-encode accepted well-formed keys identically and "
            "compute the specified function of the parsed bytes. The finite helper domains named in the property (Barrett/Montgomery reduction, conditional subtraction, Compress_d/Decompress_d, 12-bit packing, CBD bit slicing) "
            "are enumerated completely against their exact definitions; NTT/InvNTT/MulHat are compared with the defining sums and schoolbook multiplication on all monomial pairs, all +-q sign patterns and boundary polynomials on both "
            "arithmetic back-ends; the four-way sampler is compared with the scalar one and with SampleNTT, with the class 'lanes finish in different SHAKE128 blocks' required to be populated. "
            "Exploration plus enumeration is the right level: the transcript domain is astronomically large with an exact per-case oracle, while the helper domains are small enough to enumerate.",
    "note": "trusts x/crypto/sha3 and the reference where the ACVP/KAT vectors pin it; round-3 behaviour on keys with unreduced coefficients follows the 'decode then work modulo q' reading; "
            "lazy-reduction overflow inside InvNTT is searched with worst-case sign patterns and 10^5..10^7 random polynomials, not proven absent; arm64 code paths cannot be executed here; never establishes absence for the transcript domain",
}
