# CPU_OFF and COMMON_ASSUME are injected by props.py
SPEC = {
    "bins": [
        {"name": "c03", "pkg": "./zz_verif/c03", "run": "^TestC03",
         "configs": [c for c in CPU_OFF if c["name"] in ("default", "noavx2", "purego")],
         "quick_configs": ["default", "noavx2"],
         "shards": {"quick": 2, "thorough": 16}},
        {"name": "c03wb", "pkg": "./pke/kyber/internal/common", "run": "^TestVC03", "whitebox": True,
         "shards": {"quick": 2, "thorough": 16}},
    ],
    "rule": "placeholder",
    "assumptions": COMMON_ASSUME,
    "budget": {"quick": 900, "thorough": 3600},
}

MANIFEST = {
    "technique": "placeholder",
    "text": "placeholder",
    "note": "placeholder",
}
